"""K1 -- frozen model of the known SuffixFilter defect (DESIGN.md section 6).

A verbatim transcription of the pinned tree's SuffixFilter decision procedure
(``_filter_suffix``, ``_est_hamming_dist_lower_bound``, ``_partition``,
``_binary_search``) together with the token ordering, prefix length, overlap
threshold and chunking it is fed with.  It never imports py_stringsimjoin.

A qualifying pair lost by the real SuffixFilter is attributed to the known
finding K1 iff this frozen transcription, given the same strings, tokenizer,
threshold and chunking, loses it too.  A SuffixFilter loss that the
transcription does not reproduce -- and any loss in another filter -- remains a
VIOLATION.
"""
from math import ceil, floor, sqrt

from sim import model


# ---- filter_utils (as of the repaired tree: 4-decimal slack everywhere) ----

def get_prefix_length(num_tokens, sim_measure_type, threshold, qval):
    if num_tokens == 0:
        return 0
    if sim_measure_type == 'COSINE':
        return int(num_tokens -
                   ceil(round(threshold * threshold * num_tokens, 4)) + 1)
    elif sim_measure_type == 'DICE':
        return int(num_tokens -
                   ceil(round((threshold / (2 - threshold)) * num_tokens,
                              4)) + 1)
    elif sim_measure_type == 'EDIT_DISTANCE':
        return min(qval * threshold + 1, num_tokens)
    elif sim_measure_type == 'JACCARD':
        return int(num_tokens - ceil(round(threshold * num_tokens, 4)) + 1)
    elif sim_measure_type == 'OVERLAP':
        return max(num_tokens - threshold + 1, 0)


def get_overlap_threshold(l_num_tokens, r_num_tokens, sim_measure_type,
                          threshold, qval):
    if sim_measure_type == 'COSINE':
        return ceil(round(threshold * sqrt(l_num_tokens * r_num_tokens), 4))
    elif sim_measure_type == 'DICE':
        return ceil(round((threshold / 2) * (l_num_tokens + r_num_tokens), 4))
    elif sim_measure_type == 'EDIT_DISTANCE':
        return max(l_num_tokens + qval - 1,
                   r_num_tokens + qval - 1) - qval + 1 - qval * threshold
    elif sim_measure_type == 'JACCARD':
        return ceil(round((threshold / (1 + threshold)) *
                          (l_num_tokens + r_num_tokens), 4))
    elif sim_measure_type == 'OVERLAP':
        return threshold


# ---- token ordering ----------------------------------------------------------

def token_ordering(token_lists):
    freq = {}
    for tl in token_lists:
        for tok in tl:
            freq[tok] = freq.get(tok, 0) + 1
    ordered = sorted(list(freq.items()), key=lambda x: x[0])
    ordering = {}
    idx = 1
    for tok, _ in sorted(ordered, key=lambda x: x[1]):
        ordering[tok] = idx
        idx += 1
    return ordering


def order_tokens(tokens, ordering):
    out = []
    for t in tokens:
        o = ordering.get(t)
        if o is not None:
            out.append(o)
    out.sort()
    return out


# ---- the pinned SuffixFilter decision procedure -----------------------------

MAX_DEPTH = 2


def filter_suffix(l_suffix, r_suffix, l_prefix_num_tokens,
                  r_prefix_num_tokens, l_num_tokens, r_num_tokens, measure,
                  threshold, qval):
    overlap_threshold = get_overlap_threshold(l_num_tokens, r_num_tokens,
                                              measure, threshold, qval)
    if (l_prefix_num_tokens >= overlap_threshold and
            r_prefix_num_tokens >= overlap_threshold):
        return False
    hamming_dist_max = (l_num_tokens + r_num_tokens - 2 * overlap_threshold)
    hamming_dist = est_hamming(l_suffix, r_suffix,
                               l_num_tokens - l_prefix_num_tokens,
                               r_num_tokens - r_prefix_num_tokens,
                               hamming_dist_max, 1)
    if hamming_dist <= hamming_dist_max:
        return False
    return True


def est_hamming(l_suffix, r_suffix, l_suffix_num_tokens, r_suffix_num_tokens,
                hamming_dist_max, depth):
    abs_diff = abs(l_suffix_num_tokens - r_suffix_num_tokens)
    if (depth > MAX_DEPTH or l_suffix_num_tokens == 0 or
            r_suffix_num_tokens == 0):
        return abs_diff
    if l_suffix_num_tokens == 1 and r_suffix_num_tokens == 1:
        return int(not l_suffix[0] == r_suffix[0])
    r_mid = int(floor(r_suffix_num_tokens / 2))
    r_mid_token = r_suffix[r_mid]
    o = (hamming_dist_max - abs_diff) / 2
    if l_suffix_num_tokens < r_suffix_num_tokens:
        o_l = 1
        o_r = 0
    else:
        o_l = 0
        o_r = 1
    (r_l, r_r, flag, diff) = partition(r_suffix, r_mid_token, r_mid, r_mid)
    (l_l, l_r, flag, diff) = partition(
        l_suffix, r_mid_token,
        max(0, int(r_mid - o - abs_diff * o_l)),
        min(l_suffix_num_tokens - 1, int(r_mid + o + abs_diff * o_r)))
    if flag == 0:
        return hamming_dist_max + 1
    r_l_num_tokens = len(r_l)
    r_r_num_tokens = len(r_r)
    l_l_num_tokens = len(l_l)
    l_r_num_tokens = len(l_r)
    hamming_dist = (abs(l_l_num_tokens - r_l_num_tokens) +
                    abs(l_r_num_tokens - r_r_num_tokens) + diff)
    if hamming_dist > hamming_dist_max:
        return hamming_dist
    else:
        hamming_dist_l = est_hamming(
            l_l, r_l, l_l_num_tokens, r_l_num_tokens,
            hamming_dist_max - abs(l_r_num_tokens - r_r_num_tokens) - diff,
            depth + 1)
        hamming_dist = (hamming_dist_l +
                        abs(l_r_num_tokens - r_r_num_tokens) + diff)
        if hamming_dist <= hamming_dist_max:
            hamming_dist_r = est_hamming(
                l_r, r_r, l_r_num_tokens, r_r_num_tokens,
                hamming_dist_max - hamming_dist_l - diff, depth + 1)
            return hamming_dist_l + hamming_dist_r + diff
        else:
            return hamming_dist


def partition(tokens, probe_token, left, right):
    right = min(right, len(tokens) - 1)
    if right < left:
        return [], [], 0, 1
    if tokens[left] > probe_token:
        return [], [], 0, 1
    if tokens[right] < probe_token:
        return [], [], 0, 1
    pos = binary_search(tokens, probe_token, left, right)
    tokens_left = tokens[0:pos]
    if tokens[pos] == probe_token:
        tokens_right = tokens[pos + 1:len(tokens)]
        diff = 0
    else:
        tokens_right = tokens[pos:len(tokens)]
        diff = 1
    return tokens_left, tokens_right, 1, diff


def binary_search(tokens, probe_token, left, right):
    if left == right:
        return left
    mid = int(floor((left + right) / 2))
    mid_token = tokens[mid]
    if mid_token == probe_token:
        return mid
    elif mid_token < probe_token:
        return binary_search(tokens, probe_token, mid + 1, right)
    else:
        return binary_search(tokens, probe_token, left, mid)


# ---- feeding it the way the three entry points do -----------------------------

def drops_pair_level(ltokens, rtokens, measure, threshold, qval):
    """filter_pair / filter_candset: ordering from the two token lists."""
    ordering = token_ordering([ltokens, rtokens])
    ol = order_tokens(ltokens, ordering)
    orr = order_tokens(rtokens, ordering)
    return _decide(ol, orr, measure, threshold, qval)


def _decide(ol, orr, measure, threshold, qval):
    ln, rn = len(ol), len(orr)
    lp = get_prefix_length(ln, measure, threshold, qval)
    rp = get_prefix_length(rn, measure, threshold, qval)
    if lp <= 0 or rp <= 0:
        return True
    return filter_suffix(ol[lp:], orr[rp:], lp, rp, ln, rn, measure,
                         threshold, qval)


def split_bounds(n, num_splits):
    out = []
    split_size = 1.0 / num_splits * n
    for i in range(num_splits):
        out.append((int(round(i * split_size)),
                    int(round((i + 1) * split_size))))
    return out


def drops_table_level(l_tokens_all, r_tokens_all, li, ri, n_jobs, cpus,
                      measure, threshold, qval):
    """filter_tables: ordering from (whole left array, the right chunk that
    holds row ri).  Token lists are those of the rows with a present value, in
    table order; li / ri index into them."""
    procs = n_jobs
    if n_jobs < 0:
        procs = cpus + 1 + n_jobs
    procs = max(procs, 1)
    jobs = min(procs, len(r_tokens_all))
    if jobs <= 1:
        chunk = r_tokens_all
    else:
        chunk = None
        for a, b in split_bounds(len(r_tokens_all), jobs):
            if a <= ri < b:
                chunk = r_tokens_all[a:b]
                break
        if chunk is None:
            return None
    ordering = token_ordering(list(l_tokens_all) + list(chunk))
    ol = order_tokens(l_tokens_all[li], ordering)
    orr = order_tokens(r_tokens_all[ri], ordering)
    return _decide(ol, orr, measure, threshold, qval)


def explains(violation, case, finding):
    """Predicate for known.classify."""
    ci = violation.get('call_index')
    pair = violation.get('details', {}).get('pair')
    if ci is None or pair is None:
        return False
    op = case['history'][ci]
    kind = op['op']
    if kind not in ('filter_pair', 'filter_tables', 'filter_candset'):
        return False
    fspec = case['filters'][op['filter']]
    if fspec['kind'] != 'SuffixFilter':
        return False
    measure = str(fspec['measure']).upper()
    thr = fspec['threshold']
    tspec = case['tokenizers'][fspec['tokenizer']]
    if not isinstance(tspec, dict):
        from sim import simtok
        tspec = simtok.DEFAULT_SPEC
    tspec = dict(tspec)
    for prev in case['history'][:ci]:
        if prev.get('op') == 'retune' and prev.get('tok') == fspec['tokenizer']:
            tspec.update(prev['set'])
    qval = tspec.get('qval')
    tok = model.Tok(tspec, tspec.get('return_set', False))
    if kind == 'filter_pair':
        ls, rs = pair
        return drops_pair_level(tok(ls), tok(rs), measure, thr, qval) is True
    from sim.world import effective_tables
    et = effective_tables(case, ci)
    lspec, rspec = et[op['l']], et[op['r']]
    lki = lspec['columns'].index(op['l_key'])
    rki = rspec['columns'].index(op['r_key'])
    lai = lspec['columns'].index(op['l_attr'])
    rai = rspec['columns'].index(op['r_attr'])
    if kind == 'filter_candset':
        lv = [r[lai] for r in lspec['rows'] if r[lki] == pair[0]]
        rv = [r[rai] for r in rspec['rows'] if r[rki] == pair[1]]
        if len(lv) != 1 or len(rv) != 1:
            return False
        return drops_pair_level(tok(lv[0]), tok(rv[0]), measure, thr,
                                qval) is True
    lrows = [r for r in lspec['rows'] if r[lai] is not None]
    rrows = [r for r in rspec['rows'] if r[rai] is not None]
    li = [i for i, r in enumerate(lrows) if r[lki] == pair[0]]
    ri = [i for i, r in enumerate(rrows) if r[rki] == pair[1]]
    if len(li) != 1 or len(ri) != 1:
        return False
    lt = [tok(r[lai]) for r in lrows]
    rt = [tok(r[rai]) for r in rrows]
    return drops_table_level(lt, rt, li[0], ri[0], op.get('n_jobs', 1),
                             case.get('cpus', 4), measure, thr,
                             qval) is True
