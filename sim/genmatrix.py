"""C15: complete enumeration of the rejection matrix (entry point x broken
precondition), each cell instantiated in seeded, otherwise valid contexts."""
import random

from sim import gen, genreject

_CELLS = None


def cells():
    global _CELLS
    if _CELLS is None:
        _CELLS = genreject.matrix()
    return _CELLS


def n_cells():
    return len(cells())


def generate_matrix(seed, idx):
    cell_no, ctx = idx // 1000, idx % 1000
    cell = cells()[cell_no]
    rng = random.Random(gen.mix(seed, 15, 5000000 + idx))
    prof = gen.profile('C15')
    prof.update(shapes=0.15, rows=(0, 6), twin=0.0, variants={}, faults={},
                p_fault=0.0)
    g = gen.G(rng, prof, 'C15')
    case = gen.gen_world(g)
    case['property'] = 'C15'
    case['seed'] = seed
    case['run'] = 10 ** 7 + idx
    case['matrix_cell'] = list(cell)
    # context: the rejected call placed after 0-2 valid calls that use the
    # same shared objects
    for _ in range(rng.choice([0, 0, 1, 2])):
        op = gen.gen_join(g) if rng.random() < 0.6 else \
            gen.gen_filter_tables(g)
        op.pop('variants', None)
        op.pop('fault', None)
        case['history'].append(op)
    if rng.random() < 0.25:
        # the caller reconfigures one of its tokenizers before the bad call
        rt = gen.gen_retune(g)
        if rt:
            case['history'].append(rt)
    for attempt in range(8):
        op = genreject.gen_reject_cell(g, cell)
        if op is not None:
            case['history'].append(op)
            break
    for _, fs in g.filters:
        fs.pop('_used', None)
    return case
