"""SimParallel: the simulated stand-in for joblib.Parallel.

One fan-out = one call of a SimParallel object with an iterable of
``delayed(f)(*args, **kwargs)`` triples.  How the tasks run is decided by the
plan of the call in flight (``ENV.plan``):

  mode      inline   tasks run one after another on the shared argument objects
            process  every task's (f, args, kwargs) and its result go through
                     pickle: no shared memory with the coordinator (loky)
            hashproc as process, but in real child interpreters started with a
                     string-hash seed of their own (plan['hash_seed']); used
                     rarely (a child costs an import of pandas)
            threads  every task is a real thread that shares the arguments;
                     exactly one thread holds the baton; at every seam event the
                     scheduler may hand the baton to another task (joblib's
                     threading backend)
  order_seed    dispatch order and completion order (permutations drawn from
                Random(order_seed + fan-out number)); None = identity
  preempt_seed  PRNG of the baton hand-overs in thread mode
  switch_p      probability of a hand-over at a seam event
  fault         {'kind': 'worker_crash', 'after': k, 'fanout': j}: the fan-out
                raises SimWorkerCrash after k tasks have completed

Results come back in submission order, as joblib guarantees, unless the caller
asked for ``return_as='generator_unordered'`` (completion order, as joblib
would) or ``return_as='generator'`` (a generator in submission order).
"""
import pickle
import random
import threading

from sim.env import ENV, SimWorkerCrash


def _perm(n, rng):
    p = list(range(n))
    rng.shuffle(p)
    return p


class SimParallel(object):
    def __init__(self, n_jobs=None, backend=None, return_as='list',
                 prefer=None, require=None, **kwargs):
        self.n_jobs = n_jobs
        self.backend = backend
        self.return_as = return_as
        self.prefer = prefer
        self.require = require
        self.kwargs = kwargs

    # joblib.Parallel is also usable as a context manager
    def __enter__(self):
        return self

    def __exit__(self, *a):
        return False

    def __call__(self, iterable):
        tasks = list(iterable)
        n = len(tasks)
        plan = ENV.plan or {}
        fno = ENV.fanout_no
        ENV.fanout_no += 1
        mode = plan.get('mode', 'inline')
        shared = (self.backend == 'threading' or self.prefer == 'threads'
                  or self.require == 'sharedmem')
        if shared and mode in ('process', 'hashproc'):
            mode = 'threads'   # the caller asked for shared memory
        if mode == 'hashproc' and (ENV.fault is not None or n == 0):
            mode = 'process'   # faults live in the coordinator's interpreter
        if self.n_jobs == 1 and mode != 'inline':
            mode = 'inline'    # joblib runs n_jobs=1 sequentially in-process
        oseed = plan.get('order_seed')
        if oseed is None:
            dispatch = list(range(n))
            complete = list(range(n))
        else:
            rng = random.Random(oseed * 1000003 + fno)
            dispatch = _perm(n, rng)
            complete = _perm(n, rng)
        crash_after = None
        f = ENV.fault
        if (f is not None and f.get('kind') == 'worker_crash'
                and ENV.fault_fired is None and f.get('fanout', 0) == fno
                and n > 0):
            crash_after = min(int(f.get('after', 0)), n - 1)
        ENV.log('dispatch', (fno, n, self.n_jobs, mode))
        ENV.fanouts.append({'fanout': fno, 'tasks': n, 'n_jobs': self.n_jobs,
                            'mode': mode, 'dispatch': dispatch,
                            'complete': complete, 'crash_after': crash_after,
                            'return_as': self.return_as})
        if mode == 'threads':
            results, order_done = _run_threads(tasks, dispatch, plan,
                                               crash_after, fno)
        elif mode == 'hashproc':
            results, order_done = _run_hashproc(tasks, dispatch, plan, fno)
        else:
            workers = None
            if mode == 'process' and plan.get('reuse_workers', True):
                # which (persistent) worker process serves which task: a
                # seeded injection of tasks into the pool 0..n-1
                wr = random.Random((plan.get('order_seed') or 0) * 31 + fno
                                   + 17)
                workers = list(range(n))
                wr.shuffle(workers)
            results, order_done = _run_seq(tasks, dispatch, mode,
                                           crash_after, fno, workers)
        if self.return_as == 'generator_unordered':
            # completion order: for sequential modes use the planned completion
            # permutation (a real pool completes in any order)
            if mode != 'threads':
                order_done = complete
            return (results[i] for i in order_done)
        if self.return_as == 'generator':
            return (r for r in results)
        return results


class ModuleState(object):
    """What a freshly started worker interpreter does NOT share with the
    coordinator: the library's module-level variables and the mutable default
    arguments of its functions.  `pristine` is captured right after import,
    before any library call.  A simulated process worker runs its task with the
    pristine copy swapped in (whatever the coordinator stored in a module
    global or a default-argument memo is invisible to it) and whatever it
    stores there is thrown away afterwards.  Not covered: closures, lru_cache
    wrappers and class attributes (a reused real worker keeps those too)."""

    SIMPLE = (dict, list, set, int, float, str, bool, type(None), tuple,
              frozenset)

    def __init__(self):
        self.mods = []
        self.pristine = None

    def capture(self):
        import sys
        import types
        self.mods = [m for n, m in sorted(sys.modules.items())
                     if n.startswith('py_stringsimjoin') and m is not None]
        self.pristine = self._snapshot()

    def _class_attrs(self, m):
        """(class, name, value) for plain data attributes of the classes a
        library module defines (a class pickles by reference: a fresh worker
        sees the values assigned in the class body, not what the coordinator
        assigned to the class later)."""
        out = []
        for k, v in list(vars(m).items()):
            if isinstance(v, type) and getattr(v, '__module__', None) == \
                    m.__name__:
                for ak, av in list(vars(v).items()):
                    if ak.startswith('__'):
                        continue
                    if isinstance(av, self.SIMPLE):
                        out.append((v, ak, av))
        return out

    def _snapshot(self):
        import copy
        import types
        g, d = [], []
        for m in self.mods:
            for c, ak, av in self._class_attrs(m):
                try:
                    g.append((c, ak, copy.deepcopy(av)))
                except Exception:   # noqa
                    pass
            for k, v in list(vars(m).items()):
                if k.startswith('__'):
                    continue
                if isinstance(v, self.SIMPLE):
                    try:
                        g.append((m, k, copy.deepcopy(v)))
                    except Exception:   # noqa
                        pass
                elif isinstance(v, types.FunctionType) and \
                        v.__module__ == m.__name__ and v.__defaults__:
                    if any(isinstance(x, (dict, list, set))
                           for x in v.__defaults__):
                        try:
                            d.append((v, copy.deepcopy(v.__defaults__)))
                        except Exception:   # noqa
                            pass
        return g, d

    def _install(self, snap):
        import copy
        g, d = snap
        for m, k, v in g:
            setattr(m, k, copy.deepcopy(v))
        for f, dv in d:
            f.__defaults__ = copy.deepcopy(dv)

    def reset_workers(self):
        self.workers = {}

    def enter_worker(self, wid=None):
        """Swap in the module state of simulated worker process `wid`
        (persisting across the tasks and calls of a run: loky re-uses its
        workers), or a pristine state for wid None (a freshly started
        worker)."""
        if self.pristine is None:
            return None
        cur = self._snapshot_refs()
        st = getattr(self, 'workers', {}).get(wid) if wid is not None else None
        if st is None:
            self._install(self.pristine)
        else:
            self._install_refs(st)
        return cur

    def _install_refs(self, snap):
        g, d = snap
        for m, k, v in g:
            setattr(m, k, v)
        for f, dv in d:
            f.__defaults__ = dv

    def save_worker(self, wid):
        if wid is not None and self.pristine is not None:
            if not hasattr(self, 'workers'):
                self.workers = {}
            self.workers[wid] = self._snapshot_refs()

    def _snapshot_refs(self):
        import types
        g, d = [], []
        for m in self.mods:
            g.extend(self._class_attrs(m))
            for k, v in list(vars(m).items()):
                if k.startswith('__'):
                    continue
                if isinstance(v, self.SIMPLE):
                    g.append((m, k, v))
                elif isinstance(v, types.FunctionType) and \
                        v.__module__ == m.__name__ and v.__defaults__ and \
                        any(isinstance(x, (dict, list, set))
                            for x in v.__defaults__):
                    d.append((v, v.__defaults__))
        return g, d

    def leave_worker(self, cur):
        if cur is None:
            return
        g, d = cur
        # drop names the worker created, then put the coordinator's objects
        # (the very same objects, not copies) back
        keep = set((id(m), k) for m, k, _ in g)
        for m in self.mods:
            for k, v in list(vars(m).items()):
                if not k.startswith('__') and isinstance(v, self.SIMPLE) and \
                        (id(m), k) not in keep:
                    try:
                        delattr(m, k)
                    except Exception:   # noqa
                        pass
            for c, ak, av in self._class_attrs(m):
                if (id(c), ak) not in keep:
                    try:
                        delattr(c, ak)
                    except Exception:   # noqa
                        pass
        for m, k, v in g:
            setattr(m, k, v)
        for f, dv in d:
            f.__defaults__ = dv


MODSTATE = ModuleState()


def _call(task, mode, wid=None):
    f, args, kwargs = task
    if mode == 'process':
        f, args, kwargs = pickle.loads(pickle.dumps((f, args, kwargs),
                                                    pickle.HIGHEST_PROTOCOL))
        cur = MODSTATE.enter_worker(wid)
        try:
            r = f(*args, **kwargs)
        finally:
            MODSTATE.save_worker(wid)
            MODSTATE.leave_worker(cur)
        return pickle.loads(pickle.dumps(r, pickle.HIGHEST_PROTOCOL))
    return f(*args, **kwargs)


def _run_seq(tasks, dispatch, mode, crash_after, fno, workers=None):
    n = len(tasks)
    results = [None] * n
    done = []
    prev = ENV.actor
    try:
        for i in dispatch:
            if crash_after is not None and len(done) >= crash_after:
                ENV.fault_fired = {'kind': 'worker_crash', 'after': len(done),
                                   'fanout': fno}
                ENV.actor = prev
                ENV.log('fault', 'worker_crash')
                raise SimWorkerCrash('worker died after %d of %d tasks'
                                     % (len(done), n))
            ENV.actor = 'task:%d' % i
            ENV.log('task_begin', i)
            results[i] = _call(tasks[i], mode,
                               workers[i] if workers else None)
            ENV.log('task_end', i)
            done.append(i)
    finally:
        ENV.actor = prev
    return results, done


def _run_hashproc(tasks, dispatch, plan, fno):
    """Real child interpreters with a string-hash seed of their own (see
    sim.hashproc)."""
    from sim import hashproc
    from sim.env import REPO
    prev = ENV.actor
    hs = int(plan.get('hash_seed', 1)) + 2 * fno
    ENV.log('hash_seeds', (hs, hs + 1))

    def log(kind, i):
        ENV.actor = 'task:%d' % i
        ENV.log(kind, i)
    try:
        return hashproc.run_fanout(tasks, dispatch, hs, REPO, log)
    except hashproc.ChildDied as e:
        from sim.execu import HarnessError
        raise HarnessError('hashproc worker: %s' % (e,))
    finally:
        ENV.actor = prev


class _ThreadSched(object):
    """Baton passing between real threads.  Exactly one runs at any time."""

    def __init__(self, tasks, dispatch, plan, crash_after, fno):
        self.tasks = tasks
        self.n = len(tasks)
        self.rng = random.Random(plan.get('preempt_seed', 0) * 7919 + fno)
        self.switch_p = plan.get('switch_p', 0.3)
        # optional finer interleaving: a hand-over may also happen at any
        # source line executed inside the library (sys.settrace), not only at
        # seam calls
        self.line_p = plan.get('line_p', 0)
        from sim.env import REPO
        import os as _os
        self.repo_prefix = _os.path.realpath(REPO)
        self.dispatch = dispatch
        self.crash_after = crash_after
        self.fno = fno
        self.sems = [threading.Semaphore(0) for _ in range(self.n)]
        self.coord = threading.Semaphore(0)
        self.state = ['new'] * self.n     # new | running | done | skipped
        self.results = [None] * self.n
        self.errors = []
        self.done_order = []
        self.abort = False
        self.current = None
        self.idx_of = {}

    def runnable(self):
        return [i for i in self.dispatch if self.state[i] in ('new', 'running')]

    def _tracer(self, frame, event, arg):
        # line-level pre-emption inside library frames only
        if event == 'call':
            if frame.f_code.co_filename.startswith(self.repo_prefix):
                return self._line_tracer
            return None
        return None

    def _line_tracer(self, frame, event, arg):
        if event == 'line':
            if self.rng.random() < self.line_p:
                self.yield_point(force=True)
        return self._line_tracer

    def _body(self, i):
        self.sems[i].acquire()
        ENV.actor = 'task:%d' % i
        self.idx_of[threading.get_ident()] = i
        if self.line_p:
            import sys
            sys.settrace(self._tracer)
        try:
            if self.abort or (self.crash_after is not None and
                              len(self.done_order) >= self.crash_after):
                self.state[i] = 'skipped'
            else:
                self.state[i] = 'running'
                ENV.log('task_begin', i)
                f, args, kwargs = self.tasks[i]
                self.results[i] = f(*args, **kwargs)
                ENV.log('task_end', i)
                self.state[i] = 'done'
                self.done_order.append(i)
        except BaseException as e:   # noqa
            self.state[i] = 'done'
            self.errors.append((i, e))
            self.abort = True
        finally:
            if self.line_p:
                import sys
                sys.settrace(None)
            self._handover_final()

    def _handover_final(self):
        r = self.runnable()
        if not r:
            self.current = None
            self.coord.release()
            return
        # started tasks first choice is random among all runnable
        j = self.rng.choice(r)
        self.current = j
        self.sems[j].release()

    def yield_point(self, force=False):
        i = self.idx_of.get(threading.get_ident())
        if i is None or self.current != i:
            return                    # coordinator thread, or not ours
        if not force and self.rng.random() >= self.switch_p:
            return
        r = [j for j in self.runnable() if j != i]
        if not r:
            return
        j = self.rng.choice(r)
        ENV.log('yield_to', j)
        self.current = j
        self.sems[j].release()
        self.sems[i].acquire()
        self.current = i

    def run(self):
        threads = [threading.Thread(target=self._body, args=(i,), daemon=True)
                   for i in range(self.n)]
        for t in threads:
            t.start()
        if self.n:
            prev_sched = ENV.sched
            ENV.sched = self
            first = self.dispatch[0]
            self.current = first
            self.sems[first].release()
            self.coord.acquire()
            ENV.sched = prev_sched
        for t in threads:
            t.join()
        ENV.actor = 'coord'
        if self.errors:
            raise self.errors[0][1]
        if self.crash_after is not None:
            ENV.fault_fired = {'kind': 'worker_crash',
                               'after': len(self.done_order),
                               'fanout': self.fno}
            ENV.log('fault', 'worker_crash')
            raise SimWorkerCrash('worker died after %d of %d tasks'
                                 % (len(self.done_order), self.n))
        return self.results, self.done_order


def _run_threads(tasks, dispatch, plan, crash_after, fno):
    return _ThreadSched(tasks, dispatch, plan, crash_after, fno).run()
