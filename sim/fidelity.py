"""Stub fidelity: the same generated calls executed with the real
joblib.Parallel (loky processes, then the threading backend) must give exactly
the frames they give under SimParallel.  A cross-check of the stub, not a
deciding step for any property."""
import copy
import json
import os
import sys
import time


def _rebind(ssj_modules, cls):
    for m in ssj_modules:
        m.Parallel = cls


def main(n_calls=120):
    import joblib
    from sim import gen
    from sim.env import ENV, Quiet, install
    from sim import execu
    from sim.sched import SimParallel
    from sim.world import Res, World
    ssj = install()
    real = joblib._verif_real_Parallel
    mods = [m for n, m in sys.modules.items()
            if n.startswith('py_stringsimjoin') and
            getattr(m, 'Parallel', None) is SimParallel]
    t0 = time.time()
    stats = {'calls': 0, 'loky_equal': 0, 'threading_equal': 0,
             'mismatch': []}
    run = 0
    while stats['calls'] < n_calls and time.time() - t0 < 600:
        case = gen.generate('C10', 77, run, overrides={
            'variants': {}, 'faults': {}, 'p_fault': 0.0, 'jobs_multi': 1.0,
            'hist': (1, 1), 'rows': (3, 12)})
        run += 1
        for idx, op in enumerate(case['history']):
            if op['op'] not in ('join', 'filter_tables', 'filter_candset',
                                'apply_matcher'):
                continue
            op = dict(op)
            op.pop('variants', None)
            op.pop('fault', None)
            if op.get('n_jobs') in (1, None):
                op['n_jobs'] = 3
            if op['op'] == 'apply_matcher' and \
                    op['sim'].get('form') not in ('psm',):
                op['sim'] = dict(op['sim'], form='psm')
            ENV.reset()
            w = World(case, ssj)
            base = execu.run_call(w, op, idx, {'mode': 'process',
                                               'order_seed': 5}, None, {},
                                  case.get('cpus', 4))
            if not base.ok or base.res is None or not base.fanouts:
                continue
            stats['calls'] += 1
            for label, ctx in (('loky', None), ('threading', 'threading')):
                _rebind(mods, real)
                try:
                    w2 = World(case, ssj)
                    fn, kw = execu.build_call(w2, op, {})
                    ENV.cpus = case.get('cpus', 4)
                    with Quiet():
                        if ctx:
                            with joblib.parallel_config(backend=ctx):
                                val = fn(**kw)
                        else:
                            val = fn(**kw)
                    r2 = Res(val)
                    same = (r2.cols == base.res.cols and
                            r2.rows == base.res.rows)
                except Exception as e:   # noqa
                    same = False
                    r2 = None
                    stats['mismatch'].append({'run': run - 1, 'backend': label,
                                              'error': repr(e)[:300]})
                finally:
                    _rebind(mods, SimParallel)
                if same:
                    stats[label + '_equal'] += 1
                elif r2 is not None:
                    stats['mismatch'].append({
                        'run': run - 1, 'backend': label,
                        'sim_rows': len(base.res.rows),
                        'real_rows': len(r2.rows)})
    stats['wall_s'] = round(time.time() - t0, 1)
    print(json.dumps(stats, indent=1)[:3000])
    out = os.path.join(os.path.dirname(os.path.dirname(
        os.path.abspath(__file__))), 'sensitivity', 'fidelity.json')
    os.makedirs(os.path.dirname(out), exist_ok=True)
    with open(out, 'w') as f:
        json.dump(stats, f, indent=1)
    bad = len(stats['mismatch'])
    print('fidelity: %d calls with a fan-out; equal under loky: %d, under '
          'threading: %d; mismatches: %d' %
          (stats['calls'], stats['loky_equal'], stats['threading_equal'], bad))
    return 1 if bad else 0
