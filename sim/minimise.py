"""Delta-debugging minimiser over the JSON case.  A candidate is kept iff the
executor still reports a violation with the same signature for the property.
Time-boxed; every evaluation runs under an alarm.
"""
import copy
import signal
import time

from sim import execu


class _Timeout(Exception):
    pass


def _alarm(signum, frame):
    raise _Timeout()


def _eval_child(case):
    c = copy.deepcopy(case)
    rep = execu.execute_case(c)
    keep = {'violations': rep['violations'], 'calls': rep['calls'],
            'trace_digest': rep['trace_digest']}
    return keep, c


def evaluate(case, timeout=20):
    """Execute a copy of the case in a forked child (pristine library state,
    like every run of the batch).  Returns (report | None, executed copy)."""
    from sim import runner
    from sim.env import install
    install()
    try:
        res = runner.run_isolated(_eval_child, (case,), timeout=timeout)
    except runner._RunTimeout:
        return None, case
    if isinstance(res, dict):      # harness error in the child
        return None, case
    return res


def has_sig(rep, prop, sig):
    if rep is None:
        return False
    for v in rep['violations']:
        if prop in v['props'] and v['signature'] == sig:
            return True
    return False


def _refs(op):
    """Indices of earlier calls this op refers to."""
    out = []
    for o in (op, op.get('base') or {}):
        c = o.get('candset')
        if isinstance(c, str) and c.startswith('result_of:'):
            out.append(int(c.split(':')[1]))
    return out


def _drop_call(case, i):
    c = copy.deepcopy(case)
    h = c['history']
    for j in range(i + 1, len(h)):
        if i in _refs(h[j]):
            return None
    del h[i]
    for op in h:
        for o in (op, op.get('base') or {}):
            cs = o.get('candset')
            if isinstance(cs, str) and cs.startswith('result_of:'):
                k = int(cs.split(':')[1])
                if k > i:
                    o['candset'] = 'result_of:%d' % (k - 1)
    return c


def _used_names(case):
    tabs, toks, fils, cands = set(), set(), set(), set()
    for op in case['history']:
        for o in (op, op.get('base') or {}):
            for k in ('l', 'r', 't'):
                if isinstance(o.get(k), str):
                    tabs.add(o[k])
            if isinstance(o.get('tok'), str):
                toks.add(o['tok'])
            if isinstance(o.get('filter'), str):
                fils.add(o['filter'])
            if isinstance(o.get('candset'), str):
                cands.add(o['candset'])
            for sk in ('filter_spec', 'spec'):
                if isinstance(o.get(sk), dict) and \
                        isinstance(o[sk].get('tokenizer'), str):
                    toks.add(o[sk]['tokenizer'])
    for f in fils:
        fs = case.get('filters', {}).get(f)
        if fs:
            toks.add(fs['tokenizer'])
    return tabs, toks, fils, cands


def _drop_unused(case):
    c = copy.deepcopy(case)
    tabs, toks, fils, cands = _used_names(c)
    c['tables'] = dict((k, v) for k, v in c['tables'].items() if k in tabs)
    c['tokenizers'] = dict((k, v) for k, v in c['tokenizers'].items()
                           if k in toks or k == 'DEFAULT')
    c['filters'] = dict((k, v) for k, v in c.get('filters', {}).items()
                        if k in fils)
    c['candsets'] = dict((k, v) for k, v in c.get('candsets', {}).items()
                         if k in cands)
    return c


def _drop_row(case, tname, ri):
    c = copy.deepcopy(case)
    spec = c['tables'][tname]
    row = spec['rows'][ri]
    del spec['rows'][ri]
    if spec.get('index') is not None and ri < len(spec['index']):
        del spec['index'][ri]
    # candidate sets that mention the key of the dropped row lose those pairs
    for op in c['history']:
        for o in (op, op.get('base') or {}):
            cs = o.get('candset')
            if not isinstance(cs, str) or cs.startswith('result_of:'):
                continue
            cspec = c['candsets'].get(cs)
            if cspec is None:
                continue
            for side, pos in (('l', 0), ('r', 1)):
                if o.get(side) != tname:
                    continue
                kcol = o.get(side + '_key')
                if kcol not in spec['columns']:
                    continue
                key = row[spec['columns'].index(kcol)]
                keep = [n for n, p in enumerate(cspec['pairs'])
                        if p[pos] != key]
                for fld in ('pairs', 'ids', 'index'):
                    if cspec.get(fld) is not None:
                        cspec[fld] = [cspec[fld][n] for n in keep]
                for k2, vals in (cspec.get('extra') or {}).items():
                    cspec['extra'][k2] = [vals[n] for n in keep]
    return c


def _simplify_op(case, i, how):
    c = copy.deepcopy(case)
    op = c['history'][i]
    tgt = op.get('base') if op['op'] == 'reject' else op
    if how == 'no_variants':
        if not op.get('variants'):
            return None
        op.pop('variants')
    elif how.startswith('one_variant:'):
        k = int(how.split(':')[1])
        vs = op.get('variants') or []
        if len(vs) < 2 or k >= len(vs):
            return None
        op['variants'] = [vs[k]]
    elif how == 'no_twin':
        if not op.get('twin'):
            return None
        op.pop('twin')
    elif how == 'no_fault':
        if not op.get('fault'):
            return None
        op.pop('fault')
    elif how == 'inline':
        changed = False
        for pk in ('plan', 'plan_f', 'plan_m', 'plan_j'):
            p = tgt.get(pk)
            if p and (p.get('mode') != 'inline' or
                      p.get('order_seed') is not None):
                tgt[pk] = {'mode': 'inline', 'order_seed': None}
                changed = True
        for v in op.get('variants') or []:
            p = v.get('plan')
            if p and (p.get('mode') != 'inline' or
                      p.get('order_seed') is not None):
                v['plan'] = {'mode': 'inline', 'order_seed': None}
                changed = True
        if not changed:
            return None
    elif how == 'jobs1':
        changed = False
        for jk in ('n_jobs', 'n_jobs_f', 'n_jobs_m', 'n_jobs_j'):
            if jk in tgt and tgt[jk] != 1:
                tgt[jk] = 1
                changed = True
        if not changed:
            return None
    elif how == 'jobs2':
        changed = False
        for jk in ('n_jobs', 'n_jobs_f', 'n_jobs_m', 'n_jobs_j'):
            if jk in tgt and tgt[jk] not in (1, 2):
                tgt[jk] = 2
                changed = True
        if not changed:
            return None
    elif how == 'no_outs':
        changed = False
        for k in ('l_out', 'r_out'):
            if tgt.get(k):
                tgt[k] = None
                changed = True
        if not changed:
            return None
    elif how == 'no_progress':
        if not tgt.get('show_progress'):
            return None
        tgt['show_progress'] = False
    else:
        return None
    return c


def _shorten_value(case, tname, ri, ci):
    c = copy.deepcopy(case)
    v = c['tables'][tname]['rows'][ri][ci]
    if not isinstance(v, str) or len(v) < 2:
        return []
    out = []
    toks = v.split(' ')
    if len(toks) > 1:
        half = len(toks) // 2
        for part in (toks[:half], toks[half:]):
            c2 = copy.deepcopy(case)
            c2['tables'][tname]['rows'][ri][ci] = ' '.join(part)
            out.append(c2)
        if len(toks) <= 12:
            for k in range(len(toks)):
                c2 = copy.deepcopy(case)
                c2['tables'][tname]['rows'][ri][ci] = ' '.join(
                    toks[:k] + toks[k + 1:])
                out.append(c2)
    else:
        for part in (v[:len(v) // 2], v[len(v) // 2:], v[1:], v[:-1]):
            c2 = copy.deepcopy(case)
            c2['tables'][tname]['rows'][ri][ci] = part
            out.append(c2)
    return out


def minimise(case, prop, sig, budget_s=20):
    t_end = time.time() + budget_s
    best = copy.deepcopy(case)
    evals = 0

    def ok(c):
        nonlocal evals
        if c is None or time.time() > t_end:
            return False
        evals += 1
        rep, _ = evaluate(c)
        return has_sig(rep, prop, sig)

    changed = True
    while changed and time.time() < t_end:
        changed = False
        # calls, last first
        i = len(best['history']) - 1
        while i >= 0 and time.time() < t_end:
            if len(best['history']) > 1:
                c = _drop_call(best, i)
                if ok(c):
                    best = c
                    changed = True
            i -= 1
        c = _drop_unused(best)
        if c != best and ok(c):
            best = c
            changed = True
        for i in range(len(best['history'])):
            for how in ['no_variants'] + \
                    ['one_variant:%d' % k for k in range(6)] + \
                    ['no_twin', 'no_fault', 'inline', 'jobs1', 'jobs2',
                     'no_outs', 'no_progress']:
                c = _simplify_op(best, i, how)
                if c is not None and ok(c):
                    best = c
                    changed = True
        # rows: halves first, then single rows
        for tname in sorted(best['tables']):
            n = len(best['tables'][tname]['rows'])
            chunk = max(1, n // 2)
            while chunk >= 1 and time.time() < t_end:
                ri = 0
                while ri < len(best['tables'][tname]['rows']) and \
                        time.time() < t_end:
                    c = best
                    good = True
                    for _ in range(min(chunk, len(
                            best['tables'][tname]['rows']) - ri)):
                        c = _drop_row(c, tname, ri)
                    if c is not best and ok(c):
                        best = c
                        changed = True
                    else:
                        ri += chunk
                if chunk == 1:
                    break
                chunk //= 2
        # values
        for tname in sorted(best['tables']):
            spec = best['tables'][tname]
            for ri in range(len(spec['rows'])):
                for ci in range(len(spec['columns'])):
                    if time.time() > t_end:
                        break
                    again = True
                    while again and time.time() < t_end:
                        again = False
                        for c in _shorten_value(best, tname, ri, ci):
                            if ok(c):
                                best = c
                                changed = True
                                again = True
                                break
    return best, evals
