"""Generator of rejected calls: a valid base op with exactly one documented
precondition broken, plus the documented exception class.

MATRIX lists every (entry point, corruption) cell; C15 enumerates it completely
in every batch, the other profiles sample from it.
"""
import copy

from sim import gen as G

TE, AE = 'TypeError', 'AssertionError'

BAD_OBJS = ['list', 'none', 'dict', 'str', 'int', 'empty_list', 'zero',
            'empty_str']

JOIN_CORR = [
    ('ltable_not_df', TE), ('rtable_not_df', TE), ('tokenizer_not_tok', TE),
    ('l_key_unknown', AE), ('r_key_unknown', AE), ('l_attr_unknown', AE),
    ('r_attr_unknown', AE), ('l_attr_numeric', AE), ('r_attr_numeric', AE),
    ('l_out_unknown', AE), ('r_out_unknown', AE), ('l_out_other', AE), ('r_out_other', AE), ('l_key_dup', AE),
    ('r_key_dup', AE), ('l_key_nan', AE), ('r_key_nan', AE),
    ('threshold_low', AE), ('threshold_high', AE), ('comp_op_bad', AE),
    ('l_key_dup_inplace', AE), ('r_key_dup_inplace', AE)]
ED_EXTRA = [('tokenizer_not_qgram', AE)]
FILTER_CTOR_CORR = [('tokenizer_not_tok', TE), ('measure_unknown', TE),
                    ('threshold_low', AE), ('threshold_high', AE),
                    ('tokenizer_not_qgram', AE)]
OVERLAP_CTOR_CORR = [('tokenizer_not_tok', TE), ('threshold_low', AE),
                     ('comp_op_bad', AE)]
FT_CORR = [('ltable_not_df', TE), ('rtable_not_df', TE),
           ('l_key_unknown', AE), ('r_key_unknown', AE),
           ('l_attr_unknown', AE), ('r_attr_unknown', AE),
           ('l_attr_numeric', AE), ('r_attr_numeric', AE),
           ('l_out_unknown', AE), ('r_out_unknown', AE), ('l_out_other', AE), ('r_out_other', AE), ('l_key_dup', AE),
           ('r_key_dup', AE), ('l_key_nan', AE), ('r_key_nan', AE),
           ('l_key_dup_inplace', AE), ('r_key_dup_inplace', AE)]
FC_CORR = [('candset_not_df', TE), ('c_l_unknown', AE), ('c_r_unknown', AE),
           ('ltable_not_df', TE), ('rtable_not_df', TE),
           ('l_key_unknown', AE), ('r_key_unknown', AE),
           ('l_attr_unknown', AE), ('r_attr_unknown', AE),
           ('l_attr_numeric', AE), ('r_attr_numeric', AE),
           ('l_key_dup', AE), ('r_key_dup', AE), ('l_key_nan', AE),
           ('r_key_nan', AE), ('l_key_dup_inplace', AE),
           ('r_key_dup_inplace', AE)]
AM_CORR = [('candset_not_df', TE), ('c_l_unknown', AE), ('c_r_unknown', AE),
           ('ltable_not_df', TE), ('rtable_not_df', TE),
           ('l_key_unknown', AE), ('r_key_unknown', AE),
           ('l_attr_unknown', AE), ('r_attr_unknown', AE),
           ('l_out_unknown', AE), ('r_out_unknown', AE), ('l_out_other', AE), ('r_out_other', AE),
           ('tokenizer_not_tok', TE), ('comp_op_bad', AE),
           ('l_key_dup', AE), ('r_key_dup', AE), ('l_key_nan', AE),
           ('r_key_nan', AE), ('l_key_dup_inplace', AE),
           ('r_key_dup_inplace', AE)]
PROFILE_CORR = [('table_not_df', TE), ('attr_unknown', AE)]


def matrix():
    cells = []
    for m in ('JACCARD', 'COSINE', 'DICE', 'OVERLAP_COEFFICIENT', 'OVERLAP',
              'EDIT_DISTANCE'):
        for c, e in JOIN_CORR + (ED_EXTRA if m == 'EDIT_DISTANCE' else []):
            if m == 'OVERLAP' and c == 'threshold_high':
                continue
            if m == 'EDIT_DISTANCE' and c == 'threshold_high':
                continue
            cells.append(('join:' + m, c, e))
    for k in G.SAFE_FILTERS:
        for c, e in FILTER_CTOR_CORR:
            cells.append(('new_filter:' + k, c, e))
        for c, e in FT_CORR:
            cells.append(('filter_tables:' + k, c, e))
        for c, e in FC_CORR:
            cells.append(('filter_candset:' + k, c, e))
    for c, e in OVERLAP_CTOR_CORR:
        cells.append(('new_filter:OverlapFilter', c, e))
    for c, e in FT_CORR:
        cells.append(('filter_tables:OverlapFilter', c, e))
    for c, e in FC_CORR:
        cells.append(('filter_candset:OverlapFilter', c, e))
    for c, e in AM_CORR:
        cells.append(('apply_matcher', c, e))
    for c, e in PROFILE_CORR:
        cells.append(('profile', c, e))
    return cells


def _derived_table(g, name, how, keycol=None):
    """A copy of table `name` whose key column has a duplicate / a missing
    value; registered in the case, not offered to valid ops."""
    rng = g.rng
    meta = dict([m for m in g.tables if m['name'] == name][0])
    if keycol is not None and keycol != meta['key'] and \
            keycol in g.case['tables'][name]['columns']:
        meta['key'] = keycol
        meta['keytype'] = meta.get('key2type', 'int')
    dname = '%s__%s_%s' % (name, how, meta['key'])
    if dname in g.case['tables']:
        return dname
    spec = copy.deepcopy(g.case['tables'][name])
    ki = spec['columns'].index(meta['key'])
    while len(spec['rows']) < 2:
        row = []
        for c in spec['columns']:
            dt = spec['dtypes'][c]
            if c == meta['key']:
                row.append(900 + len(spec['rows']) if meta['keytype'] == 'int'
                           else 'q%d' % len(spec['rows']))
            elif c in ('code', 'k', 'id') and dt in ('int64', 'object',
                                                     'str', 'string'):
                row.append(7700 + len(spec['rows']) if dt == 'int64'
                           else 'qq%d' % len(spec['rows']))
            elif dt in ('object', 'str'):
                row.append('ab')
            elif dt == 'int64':
                row.append(1)
            elif dt == 'float64':
                row.append(0.5)
            elif dt == 'bool':
                row.append(True)
            else:
                row.append('2020-01-01')
        spec['rows'].append(row)
        if spec.get('index') is not None:
            spec['index'].append(len(spec['index']) + 500)
    if how == 'dup':
        i, j = rng.sample(range(len(spec['rows'])), 2)
        spec['rows'][j][ki] = spec['rows'][i][ki]
    else:
        i = rng.randrange(len(spec['rows']))
        spec['rows'][i][ki] = None
        if spec['dtypes'][meta['key']] == 'int64':
            spec['dtypes'][meta['key']] = 'float64'
    g.case['tables'][dname] = spec
    return dname


def corrupt(g, base, corr):
    """Apply one corruption to a (deep-copied) valid op.  Returns the op or
    None when the corruption does not apply."""
    rng = g.rng
    op = copy.deepcopy(base)
    for k in ('variants', 'twin', 'fault'):
        op.pop(k, None)
    kind = op['op']
    if corr in ('ltable_not_df', 'rtable_not_df'):
        op['l' if corr[0] == 'l' else 'r'] = {'bad': rng.choice(BAD_OBJS)}
    elif corr == 'table_not_df':
        op['t'] = {'bad': rng.choice(BAD_OBJS)}
    elif corr == 'candset_not_df':
        op['candset'] = {'bad': rng.choice(BAD_OBJS)}
    elif corr == 'tokenizer_not_tok':
        # falsy non-tokenizers too ('' / 0 / [] / False): `if tokenizer:` is
        # not `if tokenizer is not None:`
        bad = {'bad': rng.choice(['str', 'int', 'list', 'dict', 'empty_str',
                                  'zero', 'empty_list', 'false',
                                  'empty_dict'] +
                                 (['none'] if kind != 'apply_matcher'
                                  else []))}
        if kind == 'new_filter':
            op['spec']['tokenizer'] = bad
        else:
            op['tok'] = bad
    elif corr == 'tokenizer_not_qgram':
        name, spec = G.pick_tok(g, 'word')
        if kind == 'new_filter':
            if op['spec'].get('measure', '').upper() != 'EDIT_DISTANCE':
                op['spec']['measure'] = 'EDIT_DISTANCE'
                op['spec']['threshold'] = 2
            op['spec']['tokenizer'] = name
        else:
            op['tok'] = name
    elif corr.endswith('_key_unknown'):
        op[corr[0] + '_key'] = rng.choice(['nope', 'K', 'key ', ''])
    elif corr.endswith('_attr_unknown'):
        op[corr[0] + '_attr'] = rng.choice(['nope', 'V', 'val ', ''])
    elif corr == 'attr_unknown':
        op['attrs'] = (op.get('attrs') or []) + ['nope']
    elif corr.endswith('_attr_numeric'):
        op[corr[0] + '_attr'] = 'num'
    elif corr.endswith('_out_other'):
        # a column that exists, but only in the *other* table
        side, other = corr[0], ('r' if corr[0] == 'l' else 'l')
        if not isinstance(op.get('l'), str) or not isinstance(op.get('r'),
                                                              str):
            return None
        mine = g.case['tables'][op[side]]['columns']
        theirs = g.case['tables'][op[other]]['columns']
        only = [c for c in theirs if c not in mine]
        if not only:
            return None
        cur = list(op.get(side + '_out') or [])
        cur.insert(rng.randint(0, len(cur)), rng.choice(only))
        op[side + '_out'] = cur
    elif corr.endswith('_out_unknown'):
        cur = op.get(corr[0] + '_out') or []
        cur = list(cur)
        cur.insert(rng.randint(0, len(cur)), 'nope')
        op[corr[0] + '_out'] = cur
    elif corr.endswith('_key_dup_inplace'):
        # the caller's own table object is given a duplicate key in place for
        # the duration of the call (and is restored afterwards by the harness):
        # the same object was valid in earlier calls of the history
        side = corr[0]
        if not isinstance(op[side], str):
            return None
        if len(g.case['tables'][op[side]]['rows']) < 2:
            return None
        op['inplace'] = {'side': side, 'how': 'dup',
                         'i': rng.randrange(10 ** 6),
                         'j': rng.randrange(10 ** 6)}
    elif corr.endswith('_key_dup') or corr.endswith('_key_nan'):
        side = corr[0]
        if not isinstance(op[side], str):
            return None
        op[side] = _derived_table(g, op[side], corr[-3:],
                                  op.get(side + '_key'))
        if op.get('l') == op.get('r') and False:
            return None
    elif corr == 'c_l_unknown':
        op['c_l'] = 'nope'
    elif corr == 'c_r_unknown':
        op['c_r'] = 'nope'
    elif corr in ('threshold_low', 'threshold_high'):
        if kind == 'new_filter':
            m = op['spec'].get('measure', 'OVERLAP').upper()
            if op['spec']['kind'] == 'OverlapFilter':
                m = 'OVERLAP'
        else:
            m = op['measure']
        low = corr == 'threshold_low'
        if m == 'EDIT_DISTANCE':
            if not low:
                return None
            v = rng.choice([-1, -0.5, -3])
        elif m == 'OVERLAP':
            if not low:
                return None
            v = rng.choice([0, -1, -2, 0.0])
        else:
            v = rng.choice([0, 0.0, -0.0, -0.5, -1e-9]) if low else \
                rng.choice([1.0000000000000002, 1.5, 2, 1.0001])
        if kind == 'new_filter':
            op['spec']['threshold'] = v
        else:
            op['threshold'] = v
    elif corr == 'comp_op_bad':
        if kind == 'apply_matcher':
            v = rng.choice(['==', 'foo', '=>', ''])
        elif kind == 'new_filter':
            v = rng.choice(['<=', '<', '!=', 'foo'])
            op['spec']['comp_op'] = v
            return op
        elif op.get('measure') == 'EDIT_DISTANCE':
            v = rng.choice(['>=', '>', '!=', 'foo'])
        else:
            v = rng.choice(['<=', '<', '!=', 'foo'])
        op['comp_op'] = v
    elif corr == 'measure_unknown':
        op['spec']['measure'] = rng.choice(['FOO', 'jaccardx', 'TFIDF', ''])
    else:
        raise ValueError(corr)
    return op


def base_for(g, entry):
    """A valid base op for a matrix entry point."""
    rng = g.rng
    kind = entry.split(':')[0]
    sub = entry.split(':')[1] if ':' in entry else None
    saved_measures = g.prof['measures']
    try:
        if kind == 'join':
            g.prof = dict(g.prof, measures=[sub], tight=0.0)
            op = G.gen_join(g)
        elif kind == 'new_filter':
            spec = G.gen_filter_spec(g, sub)
            op = {'op': 'new_filter', 'spec': spec}
        elif kind == 'filter_tables':
            g.prof = dict(g.prof, tight=0.0)
            op = G.gen_filter_tables(g, sub)
        elif kind == 'filter_candset':
            op = G.gen_filter_candset(g, sub)
        elif kind == 'apply_matcher':
            op = G.gen_apply_matcher(g)
            if op.get('tok') is None:
                op['tok'] = G.pick_tok(g)[0]
                op['sim'] = {'measure': 'JACCARD', 'form': 'plain'}
                la, ra = G.attrs_for_tok(
                    g, op['tok'],
                    [m for m in g.tables if m['name'] == op['l']][0],
                    [m for m in g.tables if m['name'] == op['r']][0])
                op['l_attr'], op['r_attr'] = la, ra
                op['threshold'] = 0.5
                op['comp_op'] = '>='
        elif kind == 'profile':
            op = G.gen_profile(g)
            if op is None:
                op = {'op': 'profile', 't': g.tables[0]['name']}
        else:
            raise ValueError(entry)
    finally:
        g.prof = dict(g.prof, measures=saved_measures)
    return op


def gen_reject_cell(g, cell):
    entry, corr, expect = cell
    prof = g.prof
    g.prof = dict(prof, outs=0.6)
    try:
        base = base_for(g, entry)
    finally:
        g.prof = prof
    if base is None:
        return None
    bad = corrupt(g, base, corr)
    if bad is None:
        return None
    if bad['op'] in ('filter_candset', 'apply_matcher') and \
            isinstance(bad.get('candset'), str) and \
            bad['candset'] in g.case['candsets'] and g.rng.random() < 0.25:
        # the documented checks do not depend on the candidate set having rows
        cs = copy.deepcopy(g.case['candsets'][bad['candset']])
        for fld in ('pairs', 'ids', 'index'):
            cs[fld] = []
        for k2 in (cs.get('extra') or {}):
            cs['extra'][k2] = []
        name = 'S%d' % len(g.candsets)
        g.case['candsets'][name] = cs
        g.candsets.append(name)
        bad['candset'] = name
    if corr.endswith('_inplace'):
        # the valid twin of the call first, on the very same objects
        first = copy.deepcopy(base)
        for k in ('variants', 'twin', 'fault'):
            first.pop(k, None)
        if first['op'] in ('filter_candset', 'apply_matcher', 'join',
                           'filter_tables'):
            g.case['history'].append(first)
    # a rejected call must not depend on a result of an earlier call that may
    # be absent
    return {'op': 'reject', 'base': bad, 'corruption': corr, 'expect': expect,
            'entry': entry}


_MATRIX = None


def gen_reject(g):
    global _MATRIX
    if _MATRIX is None:
        _MATRIX = matrix()
    cell = g.rng.choice(_MATRIX)
    return gen_reject_cell(g, cell)
