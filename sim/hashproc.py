"""Fan-out mode ``hashproc``: the tasks of one fan-out run in real child
interpreters that were started with a string-hash seed of their own.

A loky worker is a separate interpreter: unless ``PYTHONHASHSEED`` is pinned for
the whole process tree, ``hash('token')`` in a worker differs from the
coordinator's.  The pickle-isolated ``process`` mode of sim.sched lives in the
coordinator's interpreter and therefore shares its seed; this mode does not.

Determinism: the plan names the seed of every child (``hash_seed`` + worker
number), tasks are sent one at a time in the planned dispatch order and each
child serves its tasks sequentially, so one plan is one exactly repeatable
execution.  Nothing inside a child is logged (its seam events stay there); the
coordinator's log records dispatch, task begin/end and the seeds.

Cost: a child imports pandas and the package under test (about 0.6 s), so the
generator asks for this mode rarely.
"""
import os
import pickle
import struct
import subprocess
import sys

VERIF = os.path.dirname(os.path.dirname(os.path.abspath(__file__)))

_BOOT = ("import sys; sys.path.insert(0, %r); "
         "from sim import hashproc; hashproc.serve(int(sys.argv[1]), "
         "int(sys.argv[2]))" % VERIF)


class ChildDied(Exception):
    pass


class HashWorker(object):
    def __init__(self, hash_seed, repo):
        r1, w1 = os.pipe()      # coordinator -> child
        r2, w2 = os.pipe()      # child -> coordinator
        env = dict(os.environ)
        env['PYTHONHASHSEED'] = str(int(hash_seed) % 4294967295)
        env['VERIF_NO_REEXEC'] = '1'
        env['VERIF_REPO'] = repo
        env.setdefault('PYTHONPYCACHEPREFIX', '/tmp/verif_pycache')
        self.p = subprocess.Popen(
            [sys.executable, '-c', _BOOT, str(r1), str(w2)],
            stdin=subprocess.DEVNULL, stdout=subprocess.DEVNULL,
            stderr=subprocess.DEVNULL, env=env, cwd=VERIF,
            pass_fds=(r1, w2))
        os.close(r1)
        os.close(w2)
        self.w = os.fdopen(w1, 'wb')
        self.r = os.fdopen(r2, 'rb')

    def call(self, f, args, kwargs):
        data = pickle.dumps((f, args, kwargs), pickle.HIGHEST_PROTOCOL)
        try:
            self.w.write(struct.pack('<Q', len(data)))
            self.w.write(data)
            self.w.flush()
            head = self.r.read(8)
            if len(head) < 8:
                raise ChildDied('worker interpreter died')
            n = struct.unpack('<Q', head)[0]
            body = self.r.read(n)
            if len(body) < n:
                raise ChildDied('worker interpreter died')
        except (BrokenPipeError, OSError):
            raise ChildDied('worker interpreter died')
        kind, payload = pickle.loads(body)
        if kind == 'ok':
            return payload
        if kind == 'exc':
            raise payload
        tname, text = payload
        raise RuntimeError('%s in worker: %s' % (tname, text))

    def close(self):
        for fh in (self.w, self.r):
            try:
                fh.close()
            except Exception:   # noqa
                pass
        try:
            self.p.wait(timeout=5)
        except Exception:   # noqa
            try:
                self.p.kill()
                self.p.wait(timeout=5)
            except Exception:   # noqa
                pass


def serve(rfd, wfd):
    """Child side: same seams as the coordinator (sim.env.install), then a
    read-call-reply loop until the coordinator closes the pipe."""
    r = os.fdopen(rfd, 'rb')
    w = os.fdopen(wfd, 'wb')
    from sim.env import install, Quiet
    install()
    while True:
        head = r.read(8)
        if len(head) < 8:
            break
        n = struct.unpack('<Q', head)[0]
        data = r.read(n)
        try:
            f, args, kwargs = pickle.loads(data)
            with Quiet():
                res = f(*args, **kwargs)
            out = pickle.dumps(('ok', res), pickle.HIGHEST_PROTOCOL)
        except BaseException as e:   # noqa
            try:
                out = pickle.dumps(('exc', e), pickle.HIGHEST_PROTOCOL)
                pickle.loads(out)
            except Exception:   # noqa
                out = pickle.dumps(('err', (type(e).__name__, str(e)[:500])))
        w.write(struct.pack('<Q', len(out)))
        w.write(out)
        w.flush()


def run_fanout(tasks, dispatch, hash_seed, repo, log):
    """Run the tasks in dispatch order on min(2, n) children with seeds
    hash_seed, hash_seed + 1; task i is served by child i % k."""
    n = len(tasks)
    results = [None] * n
    done = []
    k = min(2, n)
    workers = []
    try:
        for j in range(k):
            workers.append(HashWorker(hash_seed + j, repo))
        for i in dispatch:
            log('task_begin', i)
            f, args, kwargs = tasks[i]
            results[i] = workers[i % k].call(f, args, kwargs)
            log('task_end', i)
            done.append(i)
    finally:
        for wk in workers:
            wk.close()
    return results, done
