"""Known findings: genuine defects recorded (not repaired) in
/verif/known_findings.json.  A violation is attributed to an open finding only
if its signature matches the finding's pattern AND the finding's predicate
explains this very instance; anything else of the same property is still a
VIOLATION.  'fixed' entries suppress nothing."""
import re


def classify(prop, violation, case, known_list):
    for k in known_list:
        if k.get('status') != 'open' or k.get('property') != prop:
            continue
        if not re.search(k['signature_regex'], violation['signature']):
            continue
        pred = k.get('predicate')
        if pred is None:
            return k['id']
        fn = PREDICATES.get(pred)
        if fn is None:
            continue
        try:
            if fn(violation, case, k):
                return k['id']
        except Exception:   # noqa: an unexplained instance is reported
            continue
    return None


def _suffix_frozen(violation, case, finding):
    from sim import known_suffix
    return known_suffix.explains(violation, case, finding)


PREDICATES = {'suffix_frozen': _suffix_frozen}
