"""Batch runner behind bin/check: seeded search over simulated runs on all
cores, determinism / alternate-hash-seed passes, minimisation, replay
confirmation in a fresh interpreter, known-findings handling, evidence.
"""
import concurrent.futures as cf
import copy
import faulthandler
import hashlib
import json
import multiprocessing
import os
import signal
import subprocess
import sys
import time
from collections import Counter

VERIF = os.path.dirname(os.path.dirname(os.path.abspath(__file__)))
# where evidence and replay files go; a sensitivity run against a scratch copy
# of the repository sets VERIF_OUT so that it never overwrites real evidence
OUT = os.environ.get('VERIF_OUT', VERIF)
PY = sys.executable
DEFAULT_SEED = 20260926
WORKERS = int(os.environ.get('VERIF_WORKERS', '16'))

CLAIMED = ['C01', 'C02', 'C03', 'C04', 'C05', 'C06', 'C07', 'C08', 'C09',
           'C10', 'C11', 'C12', 'C15']
LEVEL = dict((p, 'exploration') for p in CLAIMED)
LEVEL['C15'] = 'fault_enumeration'

# (runs, wall budget seconds) per tier; the batch stops at whichever comes
# first.  Quick is sized for ~60-90 s on 16 cores.
BUDGET = {
    'quick': dict(runs=30000, wall=45, alt_hash=150, determinism=100,
                  minimise_s=20, max_report=4),
    'thorough': dict(runs=2000000, wall=900, alt_hash=3000, determinism=1500,
                     minimise_s=90, max_report=8),
}

RULES = {
    'C01': 'a set-similarity join call (public API, any plan) whose model '
           'oracle has >=1 qualifying (must) pair and >=1 non-qualifying '
           '(must-not) pair among present, non-empty values',
    'C02': 'a set-similarity join call with >=2 output rows executed with an '
           'effective job count >=2',
    'C03': 'an edit_distance_join call with >=1 must pair (operator holds and '
           'q-gram bags intersect) and >=1 must-not pair',
    'C04': 'a filter_tables / filter_candset call of a judged filter with >=1 '
           'must-keep pair in which the filter dropped >=1 pair',
    'C05': 'an apply_matcher call that keeps >=1 and drops >=1 candidate row '
           'and runs with effective jobs >=2 or on the token-cache path',
    'C06': 'a filter_candset call keeping >=1 and dropping >=1 row, or an '
           'OverlapFilter.filter_tables call with >=1 must pair and >=1 '
           'dropped pair',
    'C07': 'a pipeline (filter_tables -> apply_matcher vs join, three '
           'independent plans) whose join returns >=1 normal pair and whose '
           'filter stage dropped >=1 pair',
    'C08': 'a call on tables in which >=1 (left,right) pair has a missing '
           'join value on some side',
    'C09': 'a call on tables containing >=1 pair of values that both tokenize '
           'to nothing',
    'C10': 'a call re-executed under another n_jobs with effective job count '
           '>=2 whose result is non-empty (plus presentation variants)',
    'C11': 'a join / filter_tables call with >=1 output row and >=1 requested '
           'output attribute',
    'C12': 'a history of >=3 calls sharing objects in which the library '
           'flipped a shared tokenizer between set and bag mode at least once',
    'C15': 'an executed cell of the rejection matrix (entry point x broken '
           'precondition) or a valid call on a degenerate table (<=1 row)',
}


def sha(obj):
    return hashlib.sha1(repr(obj).encode('utf-8')).hexdigest()[:16]


def case_digest(case):
    c = dict(case)
    for k in ('seed', 'run', 'property'):
        c.pop(k, None)
    return hashlib.sha1(json.dumps(c, sort_keys=True, default=str)
                        .encode('utf-8')).hexdigest()[:16]


TIER = 'quick'

# thorough tier: every third run is drawn from a deeper variant of the
# property's profile (larger tables, longer values, longer histories)
def _deep(prop):
    from sim import gen
    p = gen.profile(prop)
    lo, hi = p['hist']
    return {'rows': (0, 25), 'big': 0.45,
            'hist': (lo, min(12, max(hi + 1, int(hi * 1.6))))}


def gen_case(prop, seed, run):
    from sim import gen
    if prop == 'C15' and run >= MATRIX_BASE:
        from sim import genmatrix
        return genmatrix.generate_matrix(seed, run - MATRIX_BASE)
    if TIER == 'thorough' and run % 3 == 2:
        return gen.generate(prop, seed, run, overrides=_deep(prop))
    return gen.generate(prop, seed, run)


MATRIX_BASE = 10 ** 7


_STOP = multiprocessing.get_context('fork').Event()
EARLY_STOP = bool(os.environ.get('VERIF_EARLY_STOP'))


def _summ(prop, seed, run, want_case=False):
    from sim import execu
    try:
        case = gen_case(prop, seed, run)
    except Exception as e:   # noqa: generator failure is a harness error
        import traceback
        return {'run': run, 'harness_error': 'generator %s: %s' %
                (type(e).__name__, e), 'tb': traceback.format_exc(limit=10),
                'case_digest': None}
    cd = case_digest(case)
    t0 = time.time()
    try:
        rep = execu.execute_case(case)
    except Exception as e:   # noqa: harness failure, never a VIOLATION
        import traceback
        return {'run': run, 'harness_error': '%s: %s' % (type(e).__name__, e),
                'tb': traceback.format_exc(limit=10), 'case_digest': cd}
    out = {'run': run, 'case_digest': cd,
           'viol': [dict(v, details=dict((k, x) for k, x in
                                         v['details'].items() if k != 'tb'))
                    for v in rep['violations']],
           'stats': dict(rep['stats']), 'faults': dict(rep['faults']),
           'sigs': [sha(s) for s in rep['sigs']], 'tags': sorted(rep['tags']),
           'trace_digest': rep['trace_digest'],
           'result_digest': sha(rep['result_digests']),
           'calls': rep['calls'], 'lib_calls': rep['lib_calls'],
           'events': rep['events'],
           'matrix': sorted(rep.get('matrix', [])),
           't': time.time() - t0}
    if want_case:
        out['case'] = case
    return out


def run_isolated(fn, args, timeout=120):
    """Run fn(*args) in a forked child and return its (picklable) result.

    One simulated run = one process image: whatever process-global state the
    library keeps (module-level caches, mutated defaults) starts out pristine
    in every run, so a run's outcome is a function of its case alone and a
    replay in a fresh interpreter sees exactly what the batch saw."""
    import pickle
    import select
    r, w = os.pipe()
    pid = os.fork()
    if pid == 0:
        code = 0
        try:
            os.close(r)
            try:
                res = fn(*args)
            except BaseException as e:   # noqa
                import traceback
                res = {'run': args[2] if len(args) > 2 else -1,
                       'harness_error': 'child: %s: %s' %
                       (type(e).__name__, e),
                       'tb': traceback.format_exc(limit=10)}
            data = pickle.dumps(res, pickle.HIGHEST_PROTOCOL)
            with os.fdopen(w, 'wb') as f:
                f.write(data)
        except BaseException:   # noqa
            code = 1
        finally:
            os._exit(code)
    os.close(w)
    chunks = []
    deadline = time.time() + timeout
    timed_out = False
    with os.fdopen(r, 'rb') as f:
        while True:
            left = deadline - time.time()
            if left <= 0:
                timed_out = True
                break
            ready, _, _ = select.select([f], [], [], min(left, 5))
            if ready:
                b = f.read(1 << 20)
                if not b:
                    break
                chunks.append(b)
    if timed_out:
        try:
            os.kill(pid, signal.SIGKILL)
        except OSError:
            pass
    os.waitpid(pid, 0)
    if timed_out:
        raise _RunTimeout()
    try:
        return pickle.loads(b''.join(chunks))
    except Exception as e:   # noqa
        return {'run': args[2] if len(args) > 2 else -1,
                'harness_error': 'child died without a result (%r)' % (e,)}


def _worker(args):
    prop, seed, runs, deadline = args
    faulthandler.enable()
    from sim.env import install
    install()          # import the library once; children inherit it unused
    from sim import execu, gen, genmatrix, genreject, known, minimise, \
        model, pipeline, reject, world   # noqa: F401 (warm the imports)
    import gc
    gc.collect()
    gc.freeze()        # fewer copy-on-write faults in the forked children
    out = []
    for r in runs:
        if time.time() > deadline or _STOP.is_set():
            break
        try:
            out.append(run_isolated(_summ, (prop, seed, r)))
            if EARLY_STOP:
                hits = [v for v in out[-1].get('viol', [])
                        if prop in v['props']]
                if hits:
                    kl = load_known()
                    case = gen_case(prop, seed, r)
                    if any(known.classify(prop, v, case, kl) is None
                           for v in hits):
                        _STOP.set()
        except _RunTimeout:
            out.append({'run': r, 'timeout': True})
    return out


class _RunTimeout(Exception):
    pass


def _alarm(signum, frame):
    raise _RunTimeout()


def run_batch(prop, seed, runs, wall, workers=WORKERS, chunk=12):
    """Execute the given run numbers on `workers` processes until done or the
    wall budget is used up.  Returns the list of summaries."""
    deadline = time.time() + wall
    chunks = [runs[i:i + chunk] for i in range(0, len(runs), chunk)]
    res = []
    ctx = multiprocessing.get_context('fork')
    with cf.ProcessPoolExecutor(max_workers=workers, mp_context=ctx) as ex:
        futs = [ex.submit(_worker, (prop, seed, c, deadline)) for c in chunks]
        for f in futs:
            try:
                res.extend(f.result(timeout=max(5, deadline - time.time() +
                                                180)))
            except cf.TimeoutError:
                res.append({'run': -1, 'timeout': True})
            except Exception as e:   # noqa: a dead worker
                res.append({'run': -1,
                            'harness_error': 'worker died: %r' % (e,)})
    return res


def alt_hash_digests(prop, seed, runs, hashseed):
    """Re-execute runs in a fresh interpreter under another PYTHONHASHSEED and
    return run -> (trace digest, result digest)."""
    env = dict(os.environ)
    env['PYTHONHASHSEED'] = str(hashseed)
    env['VERIF_NO_REEXEC'] = '1'
    out = {}
    parts = [runs[i::4] for i in range(4)]
    procs = []
    for part in parts:
        if not part:
            continue
        p = subprocess.Popen(
            [PY, os.path.join(VERIF, 'bin', 'check'), prop, '--tier', TIER,
             '--digests', str(seed), ','.join(str(r) for r in part)],
            stdout=subprocess.PIPE, stderr=subprocess.PIPE, env=env,
            cwd=VERIF)
        procs.append(p)
    for p in procs:
        try:
            so, se = p.communicate(timeout=900)
        except subprocess.TimeoutExpired:
            p.kill()
            continue
        for line in so.decode('utf-8', 'replace').splitlines():
            if line.startswith('DIGEST '):
                _, r, td, rd = line.split()
                out[int(r)] = (td, rd)
    return out


def print_digests(prop, seed, runs):
    from sim.env import install
    install()
    for r in runs:
        try:
            s = run_isolated(_summ, (prop, seed, r))
        except _RunTimeout:
            s = {}
        if 'trace_digest' in s:
            print('DIGEST %d %s %s' % (r, s['trace_digest'],
                                       s['result_digest']))
        else:
            print('DIGEST %d ERR ERR' % r)


# ---------------------------------------------------------------------------

def load_known():
    p = os.path.join(VERIF, 'known_findings.json')
    if not os.path.exists(p):
        return []
    with open(p) as f:
        return json.load(f).get('findings', [])


def replay_file(prop, path, quiet=False):
    """Execute a replay file in this interpreter.  Returns the list of
    violations tagged with prop."""
    from sim import execu
    with open(path) as f:
        doc = json.load(f)
    case = doc['case'] if 'case' in doc else doc
    rep = execu.execute_case(copy.deepcopy(case))
    return [v for v in rep['violations'] if prop in v['props']], doc, rep


def confirm_in_fresh_interpreter(prop, path, sig):
    env = dict(os.environ)
    env['PYTHONHASHSEED'] = '0'
    env['VERIF_NO_REEXEC'] = '1'
    try:
        p = subprocess.run([PY, os.path.join(VERIF, 'bin', 'check'), prop,
                            '--replay', path, '--expect-signature', sig],
                           stdout=subprocess.PIPE, stderr=subprocess.PIPE,
                           env=env, cwd=VERIF, timeout=300)
    except subprocess.TimeoutExpired:
        return False
    return p.returncode == 1 and b'REPRODUCED' in p.stdout


def run_corpus(prop):
    """Minimised replays of defects found earlier (after their fix): re-run
    first, so a regression is caught before the seeded search starts."""
    d = os.path.join(VERIF, 'corpus', prop)
    out = []
    if not os.path.isdir(d):
        return out
    for fn in sorted(os.listdir(d)):
        if not fn.endswith('.json'):
            continue
        path = os.path.join(d, fn)
        try:
            vs, doc, rep = replay_file(prop, path)
        except Exception as e:   # noqa
            out.append({'file': path, 'harness_error': repr(e)})
            continue
        out.append({'file': path, 'violations': vs})
    return out


def check(prop, tier, seed):
    from sim import known, minimise
    t0 = time.time()
    b = dict(BUDGET[tier])
    if os.environ.get('VERIF_WALL'):
        # developer knob: shorter or longer batch, same everything else
        b['wall'] = float(os.environ['VERIF_WALL'])
    print('check %s tier=%s seed=%d workers=%d PYTHONHASHSEED=%s repo=%s' %
          (prop, tier, seed, WORKERS, os.environ.get('PYTHONHASHSEED'),
           os.environ.get('VERIF_REPO', '/repo')))
    sys.stdout.flush()
    violations = []     # (summary-violation, source)
    harness_errors = []
    # ---- corpus ----------------------------------------------------------
    corpus = run_corpus(prop)
    for c in corpus:
        if c.get('harness_error'):
            harness_errors.append('corpus %s: %s' % (c['file'],
                                                     c['harness_error']))
        for v in c.get('violations', []):
            violations.append((v, {'corpus': c['file']}))
    # ---- main batch ------------------------------------------------------
    runs = list(range(b['runs']))
    extra = []
    if prop == 'C15':
        from sim import genmatrix
        n_cells = genmatrix.n_cells()
        ctx = 3 if tier == 'quick' else 25
        extra = [MATRIX_BASE + c * 1000 + j for c in range(n_cells)
                 for j in range(ctx)]
    res = []
    if extra:
        res.extend(run_batch(prop, seed, extra, b['wall'] * 0.6))
    res.extend(run_batch(prop, seed, runs,
                         max(10, b['wall'] - (time.time() - t0))))
    t_batch = time.time() - t0
    ok = [r for r in res if 'trace_digest' in r]
    # a run the harness itself could not produce or judge (generator / model
    # exception, run timeout) explored nothing; a handful of them in a batch of
    # thousands is reported in the evidence, more than 0.2 % fails the check
    run_errors = []
    for r in res:
        if r.get('harness_error'):
            run_errors.append('run %s: %s\n%s' % (r['run'],
                                                  r['harness_error'],
                                                  r.get('tb', '')))
        if r.get('timeout'):
            run_errors.append('run %s: timeout' % r['run'])
    if len(run_errors) > max(2, 0.002 * max(1, len(res))):
        harness_errors.extend(run_errors)
    for r in ok:
        for v in r['viol']:
            if prop in v['props']:
                violations.append((v, {'run': r['run']}))
    # ---- determinism sample: same runs again, other worker layout ----------
    det_runs = [r['run'] for r in ok[:b['determinism']]]
    det = run_batch(prop, seed, det_runs, 120, workers=max(1, WORKERS // 3),
                    chunk=5) if det_runs else []
    by_run = dict((r['run'], r) for r in ok)
    det_bad = [d['run'] for d in det if 'trace_digest' in d and
               (d['trace_digest'] != by_run[d['run']]['trace_digest'] or
                d['result_digest'] != by_run[d['run']]['result_digest'])]
    # ---- alternate hash seed pass (C10 (c) and determinism) ----------------
    alt_runs = [r['run'] for r in ok[:b['alt_hash'] * (3 if prop == 'C10' else 1)]]
    alt = alt_hash_digests(prop, seed, alt_runs, 4242) if alt_runs else {}
    alt_trace_bad = [r for r in alt_runs if r in alt and
                     alt[r][0] != by_run[r]['trace_digest']]
    alt_result_bad = [r for r in alt_runs if r in alt and
                      alt[r][1] != by_run[r]['result_digest']]
    if prop == 'C10':
        for r in alt_result_bad[:3]:
            violations.append((
                {'rule': 'hashseed', 'props': ['C10'],
                 'signature': 'C10 result-depends-on-PYTHONHASHSEED',
                 'msg': 'run %d: result digest differs between '
                        'PYTHONHASHSEED=0 and 4242' % r, 'details': {}},
                {'run': r, 'hashseed': True}))
    elif alt_result_bad or alt_trace_bad:
        pass
    if det_bad:
        harness_errors.append('non-deterministic runs (same seed, same '
                              'interpreter settings): %r' % det_bad[:10])
    if alt_trace_bad and not alt_result_bad:
        # the library's call pattern depends on the hash seed although results
        # do not: not a violation of any property, but it breaks replay
        harness_errors.append('trace digests differ under another '
                              'PYTHONHASHSEED for runs %r' % alt_trace_bad[:10])
    if prop != 'C10' and alt_result_bad:
        harness_errors.append('result digests differ under another '
                              'PYTHONHASHSEED for runs %r (C10 territory)' %
                              alt_result_bad[:10])
    # ---- violations: group, minimise, replay, classify -------------------
    by_sig = {}
    for v, src in violations:
        by_sig.setdefault(v['signature'], []).append((v, src))
    known_list = load_known()
    reported = []
    known_hits = Counter()
    unconfirmed = []
    os.makedirs(os.path.join(OUT, 'replays', prop), exist_ok=True)
    n_reported = 0
    for sig in sorted(by_sig):
        items = by_sig[sig]
        # prefer the smallest run number (deterministic choice)
        items.sort(key=lambda x: (x[1].get('run', -1),
                                  str(x[1].get('corpus', ''))))
        # known-finding classification is per violation: every instance must
        # be explained by the finding, otherwise it is reported
        novel = []
        for v, src in items[:400]:
            case = None
            if 'run' in src and not src.get('hashseed'):
                case = gen_case(prop, seed, src['run'])
            elif 'corpus' in src:
                with open(src['corpus']) as f:
                    d = json.load(f)
                case = d.get('case', d)
            kid = known.classify(prop, v, case, known_list) \
                if case is not None else None
            if kid:
                known_hits[kid] += 1
            else:
                novel.append((v, src, case))
                break
        if not novel:
            continue
        if n_reported >= b['max_report']:
            continue
        v, src, case = novel[0]
        if case is None:
            # hash-seed violation: replay file = the generated case + note
            case = gen_case(prop, seed, src['run'])
            path = os.path.join(OUT, 'replays', prop, 'hashseed-%d-%d.json'
                                % (seed, src['run']))
            with open(path, 'w') as f:
                json.dump({'property': prop, 'signature': sig,
                           'violation': v, 'hashseeds': [0, 4242],
                           'case': case}, f, indent=1, default=str)
            env = dict(os.environ, VERIF_NO_REEXEC='1')
            pr = subprocess.run([PY, os.path.join(VERIF, 'bin', 'check'),
                                 prop, '--replay', path],
                                stdout=subprocess.PIPE, stderr=subprocess.PIPE,
                                env=env, cwd=VERIF, timeout=900)
            if pr.returncode == 1 and b'REPRODUCED' in pr.stdout:
                reported.append((sig, path, v))
                n_reported += 1
            else:
                unconfirmed.append(sig)
            continue
        mini, evals = minimise.minimise(case, prop, sig,
                                        budget_s=b['minimise_s'])
        rep2, executed = minimise.evaluate(mini, timeout=60)
        vv = [x for x in (rep2['violations'] if rep2 else [])
              if prop in x['props'] and x['signature'] == sig]
        if not vv:
            rep2, executed = minimise.evaluate(case, timeout=60)
            vv = [x for x in (rep2['violations'] if rep2 else [])
                  if prop in x['props'] and x['signature'] == sig]
        if not vv:
            unconfirmed.append(sig)
            continue
        tag = hashlib.sha1(sig.encode('utf-8')).hexdigest()[:10]
        path = os.path.join(OUT, 'replays', prop, '%s-%d.json' % (tag, seed))
        vrec = dict(vv[0])
        vrec['details'] = dict((k, x) for k, x in vrec['details'].items())
        with open(path, 'w') as f:
            json.dump({'property': prop, 'signature': sig, 'seed': seed,
                       'found_in': src, 'minimiser_evaluations': evals,
                       'violation': vrec, 'case': executed}, f, indent=1,
                      default=str)
        if confirm_in_fresh_interpreter(prop, path, sig):
            # the minimised case may have turned into a known finding
            kid = known.classify(prop, vv[0], executed, known_list)
            if kid:
                known_hits[kid] += 1
                continue
            reported.append((sig, path, vv[0]))
            n_reported += 1
        else:
            unconfirmed.append(sig)
    # ---- stub fidelity (thorough C10 only; cross-check, not a deciding step)
    fidelity = None
    if prop == 'C10' and tier == 'thorough':
        try:
            pr = subprocess.run([PY, os.path.join(VERIF, 'bin', 'selftest'),
                                 'fidelity'], stdout=subprocess.PIPE,
                                stderr=subprocess.DEVNULL, cwd=VERIF,
                                timeout=1500)
            lines = [l for l in pr.stdout.decode('utf-8', 'replace')
                     .splitlines() if l.startswith('fidelity:')]
            fidelity = {'exit': pr.returncode,
                        'summary': lines[-1] if lines else None}
            if pr.returncode != 0:
                harness_errors.append('stub fidelity: SimParallel and real '
                                      'joblib disagree: %r' % (fidelity,))
        except Exception as e:   # noqa
            fidelity = {'error': repr(e)}
    # ---- evidence ----------------------------------------------------------
    wall = time.time() - t0
    for h in run_errors[:5]:
        print('NOTE: run not explored (harness): %s' % h[:600])
    ev = build_evidence(prop, tier, seed, ok, res, corpus, reported,
                        known_hits, harness_errors, unconfirmed, det_runs,
                        det_bad, alt_runs, alt, alt_trace_bad, alt_result_bad,
                        wall, t_batch, extra)
    os.makedirs(os.path.join(OUT, 'evidence'), exist_ok=True)
    ev['coverage']['runs_not_explored_harness'] = len(run_errors)
    if fidelity is not None:
        ev['coverage']['stub_fidelity_vs_real_joblib'] = fidelity
    with open(os.path.join(OUT, 'evidence', prop + '.json'), 'w') as f:
        json.dump(ev, f, indent=1, default=str)
    # ---- verdict -----------------------------------------------------------
    for kid, n in sorted(known_hits.items()):
        kf = [k for k in known_list if k['id'] == kid][0]
        print('KNOWN-FINDING: property=%s %s (%s; hit %d times in this run)' %
              (kf['property'], kf['what'], kid, n))
    for sig, path, v in reported:
        print('  %s: %s' % (sig, v['msg'][:500]))
        print('VIOLATION property=%s replay=%s' % (prop, path))
    c = ev['coverage']
    print('%s: %d simulated runs, %d library calls, %d distinct non-trivial '
          'cases, %d schedule signatures, %.0f runs/h, wall %.1fs' %
          (prop, c['evaluations'], c['library_calls'],
           c['distinct_nontrivial'], c['distinct_schedule_signatures'],
           c['runs_per_hour'], wall))
    if reported:
        return 1
    if harness_errors or unconfirmed:
        for h in harness_errors[:10]:
            print('HARNESS-ERROR: %s' % h[:2000])
        for u in unconfirmed[:10]:
            print('HARNESS-ERROR: violation %r did not reproduce on replay' %
                  u)
        return 2
    if not ok:
        print('HARNESS-ERROR: no run completed')
        return 2
    return 0


def build_evidence(prop, tier, seed, ok, res, corpus, reported, known_hits,
                   harness_errors, unconfirmed, det_runs, det_bad, alt_runs,
                   alt, alt_trace_bad, alt_result_bad, wall, t_batch, extra):
    from sim import env as simenv
    stats, faults = Counter(), Counter()
    sigs, digests, nontrivial, matrix = set(), set(), set(), set()
    calls = lib_calls = events = 0
    for r in ok:
        stats.update(r['stats'])
        faults.update(r['faults'])
        sigs.update(r['sigs'])
        digests.add(r['trace_digest'])
        calls += r['calls']
        lib_calls += r['lib_calls']
        events += r['events']
        if prop in r['tags']:
            nontrivial.add(r['case_digest'])
        for m in r['matrix']:
            matrix.add(tuple(m))
    samples = []
    for r in ok:
        if prop in r['tags'] and len(samples) < 2:
            c = gen_case(prop, seed, r['run'])
            if len(json.dumps(c, default=str)) < 6000:
                samples.append({'seed': seed, 'run': r['run'], 'case': c})
    if not samples and ok:
        samples.append({'seed': seed, 'run': ok[0]['run'],
                        'case': gen_case(prop, seed, ok[0]['run'])})
    cov = {
        'evaluations': len(ok),
        'distinct_nontrivial': len(nontrivial),
        'rule': 'cases come from the seeded swarm generator of profile %s '
                '(sim/gen.py; run i of seed s uses Random(mix(s, property, '
                'i))); distinct = distinct SHA-1 of the JSON case; '
                'non-trivial = %s' % (prop, RULES[prop]),
        'samples': samples,
        'history_calls': calls,
        'library_calls': lib_calls,
        'logical_events_simulated': events,
        'simulated_time': 'none: the library reads no clock; time is the '
                          'count of logical seam events above',
        'runs_per_hour': round(len(ok) / max(t_batch, 1e-6) * 3600),
        'seeds_per_hour': round(len(ok) / max(t_batch, 1e-6) * 3600),
        'distinct_schedule_signatures': len(sigs),
        'distinct_trace_digests': len(digests),
        'faults': dict(sorted(faults.items())),
        'probes': dict(sorted(stats.items())),
        'corpus_replayed': len(corpus),
        'known_findings_hit': dict(known_hits),
        'determinism_sample': {'runs': len(det_runs),
                               'mismatches': len(det_bad)},
        'alt_hashseed_pass': {'runs': len(alt_runs), 'compared': len(alt),
                              'trace_mismatches': len(alt_trace_bad),
                              'result_mismatches': len(alt_result_bad),
                              'hashseeds': [0, 4242]},
        'harness_errors': len(harness_errors),
        'unconfirmed_violations': len(unconfirmed),
        'components': {
            'real': ['py_stringsimjoin public API with __use_cython__=False '
                     '(joins, filters, indexes, apply_matcher, validation, '
                     'missing-value handler, helpers)', 'py_stringmatching',
                     'pandas', 'numpy', 'pickle/copyreg'],
            'stub': ['joblib.Parallel -> sim.sched.SimParallel (worker models '
                     'inline / process / threads are simulated in-process; '
                     'the rare model hashproc runs the tasks in real child '
                     'interpreters with a seeded PYTHONHASHSEED, dispatch '
                     'still decided by the plan)',
                     'multiprocessing.cpu_count', 'stdout/stderr sink'],
            'not_run': ['Cython twins (*_cy)', 'disk_edit_distance_join'],
        },
        'parallel_modules_patched':
            simenv.installed().get('n_parallel_modules'),
    }
    if prop == 'C15':
        from sim import genmatrix
        cov['matrix_cells_total'] = genmatrix.n_cells()
        cov['matrix_cells_executed'] = len(matrix)
        cov['matrix_runs'] = len([r for r in ok if r['run'] >= MATRIX_BASE])
        cov['exhaustive'] = False
    return {
        'property_id': prop, 'tier': tier, 'seed': seed,
        'level': LEVEL[prop], 'coverage': cov,
        'assumptions': [
            'py_stringmatching tokenizers and measures are correct (trusted '
            'dependency, as the properties assume)',
            'SimParallel is a faithful model of joblib.Parallel for this '
            'library: submission-order results, pickle isolation (process) or '
            'shared objects (threads); cross-checked against real joblib by '
            'bin/selftest fidelity',
            'a clean batch is evidence over the sampled schedules, faults and '
            'inputs, not proof'],
        'wall_s': round(wall, 2),
        'violations': len(reported),
    }


def main(argv):
    import argparse
    ap = argparse.ArgumentParser()
    ap.add_argument('prop')
    ap.add_argument('--tier', default=os.environ.get('VERIF_TIER', 'quick'))
    ap.add_argument('--replay')
    ap.add_argument('--expect-signature')
    ap.add_argument('--digests', nargs=2)
    ap.add_argument('--case-digest')
    a = ap.parse_args(argv)
    global TIER
    TIER = a.tier if a.tier in BUDGET else 'quick'
    if a.prop not in CLAIMED:
        print('property %s is not claimed (see MANIFEST.not_applicable)' %
              a.prop)
        return 2
    if a.digests:
        print_digests(a.prop, int(a.digests[0]),
                      [int(x) for x in a.digests[1].split(',') if x])
        return 0
    if a.case_digest:
        vs, doc, rep = replay_file(a.prop, a.case_digest)
        print('CASEDIGEST %s %s' % (rep['trace_digest'],
                                    sha(rep['result_digests'])))
        return 0
    if a.replay:
        from sim import known
        with open(a.replay) as f:
            doc0 = json.load(f)
        if doc0.get('hashseeds'):
            # a result that depends on the interpreter's hash seed: replay =
            # the same case in fresh interpreters under both seeds
            digs = {}
            for hs in doc0['hashseeds']:
                env = dict(os.environ, PYTHONHASHSEED=str(hs),
                           VERIF_NO_REEXEC='1')
                p = subprocess.run([PY, os.path.join(VERIF, 'bin', 'check'),
                                    a.prop, '--case-digest', a.replay],
                                   stdout=subprocess.PIPE,
                                   stderr=subprocess.PIPE, env=env, cwd=VERIF,
                                   timeout=600)
                for line in p.stdout.decode().splitlines():
                    if line.startswith('CASEDIGEST '):
                        digs[hs] = line.split()[2]
            print('result digests per PYTHONHASHSEED: %r' % (digs,))
            if len(digs) == len(doc0['hashseeds']) and \
                    len(set(digs.values())) > 1:
                print('REPRODUCED')
                print('VIOLATION property=%s replay=%s' % (a.prop, a.replay))
                return 1
            print('not reproduced')
            return 0
        vs, doc, rep = replay_file(a.prop, a.replay)
        sig = a.expect_signature or doc.get('signature')
        hit = [v for v in vs if sig is None or v['signature'] == sig]
        if doc.get('hashseeds'):
            print('hash-seed replay: run this case under PYTHONHASHSEED=%r '
                  'and compare result digests' % (doc['hashseeds'],))
        for v in vs:
            print('  %s: %s' % (v['signature'], v['msg'][:800]))
        if hit:
            print('REPRODUCED')
            kl = load_known()
            kid = known.classify(a.prop, hit[0], doc.get('case', doc), kl)
            if kid and not a.expect_signature:
                print('KNOWN-FINDING: property=%s %s' % (a.prop, kid))
                return 0
            print('VIOLATION property=%s replay=%s' % (a.prop, a.replay))
            return 1
        print('not reproduced')
        return 0
    tier = a.tier if a.tier in BUDGET else 'quick'
    seed = int(os.environ.get('VERIF_SEED', DEFAULT_SEED))
    return check(a.prop, tier, seed)
