"""Rejected calls as faults (C15, first half).

A reject op carries a base op in which exactly one documented precondition has
been broken by the generator, and the exception class the documentation
promises.  Checked: the class; that nothing was touched (tables, candidate sets,
tokenizer configuration incl. set/bag mode, filter objects); and that the call's
slice of the seam event log contains no tokenize, no sim_function and no task
dispatch ("before doing any work").  set_return_set / get_return_set events are
not work: a repair that flips and restores in try/finally is fine, what counts
is the final state.
"""
from sim.env import ENV

WORK_KINDS = ('tokenize', 'sim_fn', 'dispatch', 'task_begin')


def run_reject(case, world, idx, op, results, rep, cpus):
    from sim.execu import V, check_state, op_component, run_call
    base = op['base']
    expect = op['expect']
    corr = op['corruption']
    comp = op_component(world, base)
    undo = None
    inp = base.get('inplace')
    if inp:
        df = world.tables[base[inp['side']]]
        kcol = base[inp['side'] + '_key']
        if len(df) < 2 or kcol not in df.columns:
            return []
        ci = list(df.columns).index(kcol)
        i = inp['i'] % len(df)
        j = inp['j'] % len(df)
        if i == j:
            j = (i + 1) % len(df)
        orig = df.iloc[j, ci]
        df.iloc[j, ci] = df.iloc[i, ci]
        undo = (df, j, ci, orig)
    try:
        out = run_call(world, base, idx, base.get('plan'), None, results,
                       cpus)
    finally:
        if undo:
            df, j, ci, orig = undo
            df.iloc[j, ci] = orig
    rep['lib_calls'] += 1
    rep['faults']['reject:configured'] += 1
    rep['stats']['reject:' + corr] += 1
    vs = []
    cell = (comp.split(':')[0] + ':' + comp.split(':')[1]
            if ':' in comp else comp, corr)
    rep.setdefault('matrix', set()).add(cell)
    rep['tags'].add('C15')
    if out.ok:
        vs.append(V('reject_class', ['C15'],
                    'C15 %s accepted:%s' % (comp, corr),
                    'call with %s returned normally instead of raising %s' %
                    (corr, expect)))
    else:
        rep['faults']['reject:fired'] += 1
        exp_cls = {'TypeError': TypeError, 'AssertionError': AssertionError}[
            expect]
        if not isinstance(out.exc, exp_cls):
            vs.append(V('reject_class', ['C15'],
                        'C15 %s wrong-exception:%s:%s' %
                        (comp, corr, out.exc_class),
                        'call with %s raised %s (%s), documented: %s' %
                        (corr, out.exc_class, out.exc_msg, expect),
                        tb=out.tb))
    svs, _ = check_state(world, out.ok, base)
    for v in svs:
        v['props'] = ['C15'] + [p for p in v['props'] if p != 'C15']
        v['signature'] = 'C15 rejected-call ' + v['signature']
        v['rule'] = 'reject_state'
    vs.extend(svs)
    for k, (obj, before) in getattr(out, 'passed_lists', {}).items():
        if obj != before:
            vs.append(V('reject_state', ['C15'],
                        'C15 rejected-call %s argument-list-modified' % comp,
                        'rejected call changed its %s argument from %r to %r'
                        % (k, before, obj)))
    work = [e for e in out.events if e[3] in WORK_KINDS]
    if work and not out.ok:
        kinds = sorted(set(e[3] for e in work))
        vs.append(V('reject_nowork', ['C15'],
                    'C15 %s work-before-rejection:%s' % (comp, corr),
                    'rejected call (%s) did work first: %d events of kinds %r'
                    % (corr, len(work), kinds)))
    return vs
