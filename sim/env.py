"""Simulation environment: the event log, the current actor, fault plan of the
call in flight, and installation of the seams.

Everything the simulator decides or observes goes through the single module
level object ``ENV``.  Nothing in here reads a clock or draws from a PRNG while
logging.
"""
import hashlib
import io
import os
import sys
import threading

REPO = os.environ.get('VERIF_REPO', '/repo')


class InjectedFault(Exception):
    """Raised by a seam on behalf of the fault plan (tok_raise / sim_raise)."""


class SimWorkerCrash(Exception):
    """Raised by SimParallel: a worker died, its results are gone."""


class StepCapExceeded(Exception):
    """A call produced more seam events than the cap allows (a hang, or a
    run-away loop).  Never an acceptable way for a call to end."""


class Env(object):
    STEP_CAP = 400000

    def __init__(self):
        self.reset()

    def reset(self):
        self.events = []
        self.seq = 0
        self.call_idx = -1
        self.tls = threading.local()
        self.sched = None          # active thread scheduler, if any
        self.fault = None          # fault plan of the call in flight
        self.fault_fired = None
        self.tok_count = 0         # tokenize events in the current call
        self.sim_count = 0         # sim_function events in the current call
        self.fanouts = []          # per call: description of every fan-out
        self.plan = None           # plan for fan-outs of the call in flight
        self.cpus = 4
        self.call_events = 0
        self.lock = threading.Lock()

    # ---- actor ----------------------------------------------------------
    @property
    def actor(self):
        return getattr(self.tls, 'actor', 'coord')

    @actor.setter
    def actor(self, v):
        self.tls.actor = v

    # ---- logging --------------------------------------------------------
    def log(self, kind, detail=None):
        self.seq += 1
        self.call_events += 1
        self.events.append((self.seq, self.call_idx, self.actor, kind, detail))
        if self.call_events > self.STEP_CAP:
            raise StepCapExceeded('more than %d seam events in one call'
                                  % self.STEP_CAP)

    def begin_call(self, idx, plan, fault, cpus):
        self.call_idx = idx
        self.plan = plan or {}
        self.fault = dict(fault) if fault else None
        self.fault_fired = None
        self.tok_count = 0
        self.sim_count = 0
        self.call_events = 0
        self.fanouts = []
        self.cpus = cpus
        self.fanout_no = 0
        self.mark = len(self.events)

    def call_slice(self):
        return self.events[self.mark:]

    def digest(self):
        h = hashlib.sha1()
        for e in self.events:
            h.update(repr(e).encode('utf-8'))
        return h.hexdigest()

    # ---- seam callbacks -------------------------------------------------
    def on_tokenize(self, tok_id):
        self.tok_count += 1
        self.log('tokenize', tok_id)
        f = self.fault
        if (f is not None and f.get('kind') == 'tok_raise'
                and self.fault_fired is None and self.tok_count == f['at']):
            self.fault_fired = {'kind': 'tok_raise', 'actor': self.actor,
                                'at': self.tok_count}
            self.log('fault', 'tok_raise')
            raise InjectedFault('tokenize #%d' % self.tok_count)
        self.maybe_yield()

    def on_flag(self, tok_id, kind, value=None):
        self.log(kind, (tok_id, value))
        self.maybe_yield()

    def on_sim(self, fn_id):
        self.sim_count += 1
        self.log('sim_fn', fn_id)
        f = self.fault
        if (f is not None and f.get('kind') == 'sim_raise'
                and self.fault_fired is None and self.sim_count == f['at']):
            self.fault_fired = {'kind': 'sim_raise', 'actor': self.actor,
                                'at': self.sim_count}
            self.log('fault', 'sim_raise')
            raise InjectedFault('sim_function #%d' % self.sim_count)
        self.maybe_yield()

    def maybe_yield(self):
        s = self.sched
        if s is not None:
            s.yield_point()


ENV = Env()

_installed = {}


def install(repo=None):
    """Install the seams and import the package under test from ``repo``.

    * ``joblib.Parallel`` is replaced by ``SimParallel`` *before* the package is
      imported, so every ``from joblib import delayed, Parallel`` binds the
      simulator (and any module global still bound to the real class is
      re-bound afterwards, in case the package was imported earlier).
    * ``multiprocessing.cpu_count`` returns the simulated CPU count.
    * ``__use_cython__`` is switched off (docs/cython.rst) so that the public
      wrappers run the pure-Python implementations.
    * the default tokenizer object of ``edit_distance_join`` is given the
      instrumented class (same object, same state).
    """
    if _installed:
        return _installed['ssj']
    repo = repo or REPO
    import warnings
    warnings.simplefilter('ignore')
    import joblib
    import multiprocessing
    from sim import sched
    real_parallel = joblib.Parallel
    joblib._verif_real_Parallel = real_parallel
    joblib.Parallel = sched.SimParallel
    import joblib.parallel as jp
    jp._verif_real_Parallel = real_parallel
    multiprocessing._verif_real_cpu_count = multiprocessing.cpu_count
    multiprocessing.cpu_count = lambda: ENV.cpus
    if repo not in sys.path:
        sys.path.insert(0, repo)
    import py_stringsimjoin as ssj
    ssj.__use_cython__ = False
    here = os.path.realpath(os.path.dirname(ssj.__file__))
    if not here.startswith(os.path.realpath(repo)):
        raise RuntimeError('py_stringsimjoin imported from %s, not from %s'
                           % (here, repo))
    n = 0
    for name, mod in list(sys.modules.items()):
        if name.startswith('py_stringsimjoin') and mod is not None:
            if getattr(mod, 'Parallel', None) is real_parallel:
                mod.Parallel = sched.SimParallel
            if getattr(mod, 'Parallel', None) is sched.SimParallel:
                n += 1
    from sim import simtok
    # the public wrappers import their pure-Python twins lazily: import them
    # now (import only, nothing is called), so that forked children do not
    # pay for it in every run
    import importlib
    for m in ('jaccard_join_py', 'cosine_join_py', 'dice_join_py',
              'overlap_join_py', 'overlap_coefficient_join_py',
              'edit_distance_join_py'):
        try:
            importlib.import_module('py_stringsimjoin.join.' + m)
        except Exception:   # noqa: a broken module shows up when it is called
            pass
    fn = ssj.edit_distance_join
    dflt = fn.__defaults__[-1]
    simtok.adopt_default(dflt)
    sched.MODSTATE.capture()
    _installed['ssj'] = ssj
    _installed['n_parallel_modules'] = n
    _installed['default_tok'] = dflt
    return ssj


def installed():
    return _installed


class Quiet(object):
    """stdout/stderr of library code (progress bars, prints) go to a sink."""

    def __enter__(self):
        self.o, self.e = sys.stdout, sys.stderr
        sys.stdout = io.StringIO()
        sys.stderr = io.StringIO()
        return self

    def __exit__(self, *a):
        sys.stdout, sys.stderr = self.o, self.e
        return False
