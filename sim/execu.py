"""Executor: runs a JSON case (world + history of calls with plans, faults and
variants) against the real library under the simulator and judges every call.

Returns a report dict: violations (each tagged with the properties it is
evidence against, a signature and details), per-run statistics and the trace
digest.
"""
import copy
import traceback
from collections import Counter

from sim import model, simtok
from sim.env import ENV, InjectedFault, Quiet, SimWorkerCrash, \
    StepCapExceeded, install
from sim.world import Res, World, build_candset, make_filter, norm_cell, \
    snap_diff, snapshot

SAFE_TABLE_EXACT = ('SizeFilter', 'OverlapFilter')
JOIN_FN = {'JACCARD': 'jaccard_join', 'COSINE': 'cosine_join',
           'DICE': 'dice_join',
           'OVERLAP_COEFFICIENT': 'overlap_coefficient_join',
           'OVERLAP': 'overlap_join', 'EDIT_DISTANCE': 'edit_distance_join'}


class HarnessError(Exception):
    pass


def fmeasure(fspec):
    return str(fspec.get('measure', 'OVERLAP')).upper()


class Outcome(object):
    def __init__(self):
        self.ok = False
        self.value = None
        self.res = None
        self.exc = None
        self.exc_class = None
        self.exc_msg = None
        self.tb = None
        self.events = []
        self.fanouts = []
        self.fault_fired = None
        self.tok_events = 0
        self.sim_events = 0

    def brief(self):
        if self.ok:
            return 'ok'
        return 'raise %s: %s' % (self.exc_class, (self.exc_msg or '')[:200])


def V(rule, props, sig, msg, **details):
    return {'rule': rule, 'props': list(props), 'signature': sig, 'msg': msg,
            'details': details}


# ---------------------------------------------------------------------------
# calling the library
# ---------------------------------------------------------------------------

def _get_table(world, ref, results):
    if isinstance(ref, dict) and 'bad' in ref:
        return _bad_value(ref['bad'])
    return world.tables[ref]


_FALSY = {'empty_str': str, 'zero': int, 'empty_list': list,
          'false': bool, 'empty_dict': dict}


def _bad_value(kind):
    if kind == 'list':
        return [[1, 'a']]
    if kind == 'none':
        return None
    if kind == 'dict':
        return {'k': [1]}
    if kind == 'str':
        return 'table'
    if kind == 'int':
        return 7
    if kind in _FALSY:
        return _FALSY[kind]()
    raise ValueError(kind)


def _get_tok(world, ref):
    if ref is None:
        return None
    if isinstance(ref, dict) and 'bad' in ref:
        return _bad_value(ref['bad'])
    return world.toks[ref]


def _get_candset(world, op, results):
    ref = op['candset']
    if isinstance(ref, dict) and 'bad' in ref:
        return _bad_value(ref['bad'])
    if isinstance(ref, str) and ref.startswith('result_of:'):
        j = int(ref.split(':')[1])
        r = results.get(j)
        if r is None:
            raise HarnessError('candset refers to call %d which has no '
                               'result' % j)
        return r
    return world.candsets[ref]


def build_call(world, op, results):
    """Return (callable, kwargs) for a library call op."""
    ssj = world.ssj
    kind = op['op']
    nj = {}
    if 'n_jobs' in op and op['n_jobs'] is not None:
        nj['n_jobs'] = op['n_jobs']
    if 'show_progress' in op:
        nj['show_progress'] = op['show_progress']
    if kind == 'join':
        fn = getattr(ssj, JOIN_FN[op['measure']])
        kw = dict(ltable=_get_table(world, op['l'], results),
                  rtable=_get_table(world, op['r'], results),
                  l_key_attr=op['l_key'], r_key_attr=op['r_key'],
                  l_join_attr=op['l_attr'], r_join_attr=op['r_attr'],
                  threshold=op['threshold'])
        if op.get('tok') != 'DEFAULT_OMITTED':
            kw['tokenizer'] = _get_tok(world, op['tok'])
        for k_json, k_arg in (('comp_op', 'comp_op'),
                              ('allow_missing', 'allow_missing'),
                              ('l_out', 'l_out_attrs'),
                              ('r_out', 'r_out_attrs'),
                              ('l_prefix', 'l_out_prefix'),
                              ('r_prefix', 'r_out_prefix'),
                              ('score', 'out_sim_score')):
            if k_json in op:
                kw[k_arg] = op[k_json]
        if op['measure'] not in ('OVERLAP', 'EDIT_DISTANCE') and \
                'allow_empty' in op:
            kw['allow_empty'] = op['allow_empty']
        if op.get('same_out_object') and 'l_out_attrs' in kw and \
                kw.get('l_out_attrs') == kw.get('r_out_attrs'):
            kw['r_out_attrs'] = kw['l_out_attrs']     # the very same list
        kw.update(nj)
        return fn, kw
    if kind == 'filter_tables':
        f = world.filters[op['filter']]
        kw = dict(ltable=_get_table(world, op['l'], results),
                  rtable=_get_table(world, op['r'], results),
                  l_key_attr=op['l_key'], r_key_attr=op['r_key'],
                  l_filter_attr=op['l_attr'], r_filter_attr=op['r_attr'])
        for k_json, k_arg in (('l_out', 'l_out_attrs'),
                              ('r_out', 'r_out_attrs'),
                              ('l_prefix', 'l_out_prefix'),
                              ('r_prefix', 'r_out_prefix')):
            if k_json in op:
                kw[k_arg] = op[k_json]
        if 'score' in op and type(f).__name__ == 'OverlapFilter':
            kw['out_sim_score'] = op['score']
        if op.get('same_out_object') and 'l_out_attrs' in kw and \
                kw.get('l_out_attrs') == kw.get('r_out_attrs'):
            kw['r_out_attrs'] = kw['l_out_attrs']     # the very same list
        kw.update(nj)
        return f.filter_tables, kw
    if kind == 'filter_candset':
        f = world.filters[op['filter']]
        kw = dict(candset=_get_candset(world, op, results),
                  candset_l_key_attr=op['c_l'], candset_r_key_attr=op['c_r'],
                  ltable=_get_table(world, op['l'], results),
                  rtable=_get_table(world, op['r'], results),
                  l_key_attr=op['l_key'], r_key_attr=op['r_key'],
                  l_filter_attr=op['l_attr'], r_filter_attr=op['r_attr'])
        kw.update(nj)
        return f.filter_candset, kw
    if kind == 'filter_pair':
        f = world.filters[op['filter']]
        return f.filter_pair, dict(lstring=op['ls'], rstring=op['rs'])
    if kind == 'apply_matcher':
        simf = op['sim']
        if isinstance(simf, dict):
            fn_obj = simtok.sim_function(simf['measure'], simf['form'])
        else:
            fn_obj = simf
        kw = dict(candset=_get_candset(world, op, results),
                  candset_l_key_attr=op['c_l'], candset_r_key_attr=op['c_r'],
                  ltable=_get_table(world, op['l'], results),
                  rtable=_get_table(world, op['r'], results),
                  l_key_attr=op['l_key'], r_key_attr=op['r_key'],
                  l_match_attr=op['l_attr'], r_match_attr=op['r_attr'],
                  tokenizer=_get_tok(world, op.get('tok')),
                  sim_function=fn_obj, threshold=op['threshold'])
        for k_json, k_arg in (('comp_op', 'comp_op'),
                              ('allow_missing', 'allow_missing'),
                              ('l_out', 'l_out_attrs'),
                              ('r_out', 'r_out_attrs'),
                              ('l_prefix', 'l_out_prefix'),
                              ('r_prefix', 'r_out_prefix'),
                              ('score', 'out_sim_score')):
            if k_json in op:
                kw[k_arg] = op[k_json]
        kw.update(nj)
        return ssj.apply_matcher, kw
    if kind == 'new_filter':
        spec = op['spec']
        toks = dict(world.toks)
        tk = spec['tokenizer']
        if isinstance(tk, dict) and 'bad' in tk:
            toks = {'__bad__': _bad_value(tk['bad'])}
            spec = dict(spec, tokenizer='__bad__')
        return (lambda: make_filter(ssj, spec, toks)), {}
    if kind == 'profile':
        kw = dict(input_table=_get_table(world, op['t'], results))
        if op.get('attrs') is not None:
            kw['profile_attrs'] = op['attrs']
        return ssj.profile_table_for_join, kw
    if kind == 'convert':
        t = _get_table(world, op['t'], results)
        if op['which'] == 'series':
            return ssj.series_to_str, dict(series=t[op['col']], inplace=False)
        return ssj.dataframe_column_to_str, dict(
            dataframe=t, col_name=op['col'], inplace=False,
            return_col=op.get('return_col', False))
    raise HarnessError('unknown op %r' % (kind,))


def run_call(world, op, call_idx, plan, fault, results, cpus):
    """Execute one library call under the simulator."""
    out = Outcome()
    try:
        fn, kw = build_call(world, op, results)
    except HarnessError:
        raise
    # the library gets its own list objects for the output attributes (one
    # shared object if the caller passes the same list twice): whatever it does
    # to them cannot leak into the case document the model reads
    shared = kw.get('l_out_attrs') is not None and \
        kw.get('l_out_attrs') is kw.get('r_out_attrs')
    for k in ('l_out_attrs', 'r_out_attrs', 'profile_attrs'):
        if isinstance(kw.get(k), list):
            kw[k] = list(kw[k])
    if shared:
        kw['r_out_attrs'] = kw['l_out_attrs']
    out.passed_lists = dict((k, (kw[k], list(kw[k]))) for k in
                            ('l_out_attrs', 'r_out_attrs', 'profile_attrs')
                            if isinstance(kw.get(k), list))
    ENV.begin_call(call_idx, plan, fault, cpus)
    ENV.log('call_begin', op['op'])
    try:
        with Quiet():
            val = fn(**kw)
        out.ok = True
        out.value = val
        ENV.actor = 'coord'
        ENV.log('call_return', None)
    except (InjectedFault, SimWorkerCrash) as e:
        ENV.actor = 'coord'
        out.exc, out.exc_class, out.exc_msg = e, type(e).__name__, str(e)
        ENV.log('call_raise', out.exc_class)
    except StepCapExceeded as e:
        ENV.actor = 'coord'
        out.exc, out.exc_class, out.exc_msg = e, 'StepCapExceeded', str(e)
        ENV.log('call_raise', out.exc_class)
    except HarnessError:
        raise
    except Exception as e:   # noqa: the library's own exceptions
        ENV.actor = 'coord'
        out.exc, out.exc_class, out.exc_msg = e, type(e).__name__, str(e)
        out.tb = traceback.format_exc(limit=12)
        ENV.log('call_raise', out.exc_class)
    ENV.sched = None
    out.events = ENV.call_slice()
    out.fanouts = list(ENV.fanouts)
    out.fault_fired = ENV.fault_fired
    out.tok_events = ENV.tok_count
    out.sim_events = ENV.sim_count
    ENV.fault = None
    ENV.plan = None
    if out.ok:
        import pandas as pd
        if isinstance(out.value, pd.DataFrame):
            out.res = Res(out.value)
    return out


# ---------------------------------------------------------------------------
# judging
# ---------------------------------------------------------------------------

def _rows_by_key(rows, key):
    return dict((r[key], r) for r in rows)


def _eq(a, b):
    if a is None or b is None:
        return a is None and b is None
    try:
        return bool(a == b)
    except Exception:   # noqa
        return False


def _prop_for(measure, kind, base):
    if kind == 'missing':
        return 'C08'
    if kind in ('empty', 'one_empty'):
        return 'C09'
    return base


def judge_table_result(world, op, out, po, what):
    """Common judging of a join / filter_tables result against a PairOracle.

    what: 'join' | 'filter'.  Returns violations."""
    vs = []
    res = out.res
    lrows, rrows = world.rows[op['l']], world.rows[op['r']]
    lkey, rkey = op['l_key'], op['r_key']
    lp, rp = op.get('l_prefix', 'l_'), op.get('r_prefix', 'r_')
    measure = op.get('measure')
    fkind = op.get('fkind')
    if what == 'join':
        want_score = op.get('score', True)
        base_c, base_s = ('C03', 'C03') if measure == 'EDIT_DISTANCE' else \
            ('C01', 'C02')
        comp = 'join:' + measure
    else:
        want_score = (fkind == 'OverlapFilter' and op.get('score', False))
        base_c = 'C04'
        base_s = 'C06' if fkind == 'OverlapFilter' else None
        comp = 'filter_tables:%s:%s' % (fkind, measure)
    cols, lo, ro = model.out_columns(lkey, rkey, op.get('l_out'),
                                     op.get('r_out'), lp, rp, want_score)
    if res.cols != cols:
        vs.append(V('columns', ['C11'], 'C11 %s columns' % comp,
                    'columns %r, documented %r' % (res.cols, cols)))
        return vs
    ids = res.col('_id')
    if ids != list(range(len(res.rows))):
        vs.append(V('id_range', ['C10'], 'C10 %s _id-not-0..n-1' % comp,
                    '_id column is %r' % (ids[:20],)))
    lby, rby = _rows_by_key(lrows, lkey), _rows_by_key(rrows, rkey)
    seen = Counter()
    si = len(cols) - 1 if want_score else None
    for row in res.rows:
        k = (row[1], row[2])
        seen[k] += 1
        if k not in po.verdict:
            vs.append(V('unknown_key', [base_s or 'C11'] +
                        (['C11'] if base_s else []),
                        '%s %s unknown-key' % (base_s or 'C11', comp),
                        'output row names key pair %r which does not exist'
                        % (k,)))
            continue
        kind = po.kind[k]
        verdict = po.verdict[k]
        if verdict == model.NOT:
            p = _prop_for(measure, kind, base_s)
            if p is not None:
                vs.append(V('must_not_present', [p],
                            '%s %s %s-pair-present' % (p, comp, kind),
                            'pair %r (%s) must not be in the output' %
                            (k, kind), pair=list(k)))
        # projection
        lr, rr = lby[k[0]], rby[k[1]]
        c = 3
        for a in lo:
            if not _eq(row[c], norm_cell(lr[a])):
                vs.append(V('projection', ['C11'],
                            'C11 %s projection' % comp,
                            'row %r: column %r is %r, source row has %r' %
                            (k, cols[c], row[c], lr[a])))
            c += 1
        for a in ro:
            if not _eq(row[c], norm_cell(rr[a])):
                vs.append(V('projection', ['C11'],
                            'C11 %s projection' % comp,
                            'row %r: column %r is %r, source row has %r' %
                            (k, cols[c], row[c], rr[a])))
            c += 1
        if si is not None and verdict != model.NOT:
            sc = row[si]
            acc = po.scores[k]
            p = _prop_for(measure, kind, base_s)
            if acc == 'nan':
                if sc is not None:
                    vs.append(V('score', ['C08'], 'C08 %s missing-score' % comp,
                                'pair %r has a missing side, score %r instead '
                                'of NaN' % (k, sc)))
            elif acc is not None:
                if not any(_eq(sc, a) for a in acc):
                    vs.append(V('score', [p], '%s %s score' % (p, comp),
                                'pair %r: _sim_score %r, accepted %r' %
                                (k, sc, acc), pair=list(k)))
    for k, n in seen.items():
        if n > 1 and k in po.kind:
            kind = po.kind[k]
            if what == 'join':
                p = _prop_for(measure, kind, base_s)
            elif kind == 'missing':
                p = 'C08'
            elif fkind == 'OverlapFilter':
                p = 'C06'
            else:
                p = None
            if p:
                props = [p]
                if what == 'join' and measure == 'EDIT_DISTANCE' and \
                        p != 'C03':
                    # C03: "each key pair at most once", whatever the pair
                    # stems from
                    props.append('C03')
                vs.append(V('duplicate', props, '%s %s duplicate-%s-pair' %
                            (p, comp, kind),
                            'pair %r occurs %d times' % (k, n), pair=list(k)))
    missing = [k for k in po.must() if k not in seen]
    for k in missing[:5]:
        kind = po.kind[k]
        p = _prop_for(measure, kind, base_c)
        vs.append(V('must_missing', [p], '%s %s %s-pair-lost' % (p, comp, kind),
                    'qualifying pair %r (%s) is not in the output' % (k, kind),
                    pair=list(k), n_lost=len(missing)))
    return vs


def oracle_for(world, op, strict=False):
    """PairOracle of a join / filter_tables op (None if the call is not
    judged by the model, e.g. filter with a tokenizer in the wrong mode)."""
    lrows, rrows = world.rows[op['l']], world.rows[op['r']]
    if op['op'] == 'join':
        tokname = 'DEFAULT' if op['tok'] == 'DEFAULT_OMITTED' else op['tok']
        return model.join_oracle(
            lrows, rrows, op['l_key'], op['r_key'], op['l_attr'], op['r_attr'],
            world.tokspec[tokname], op['measure'], op['threshold'],
            op.get('comp_op', '<=' if op['measure'] == 'EDIT_DISTANCE'
                   else '>='),
            op.get('allow_empty', True), op.get('allow_missing', False),
            strict=strict)
    fspec = world.case['filters'][op['filter']]
    return filter_oracle_for(world, fspec, lrows, rrows, op['l_key'],
                             op['r_key'], op['l_attr'], op['r_attr'])


def filter_judged(world, fspec):
    """C04's assumption: set-mode tokenizer for set measures, bag q-gram
    tokenizer for edit distance.  Other combinations are executed but not
    judged by the model."""
    mode = world.tok_mode(fspec['tokenizer'])
    if fspec['kind'] == 'OverlapFilter':
        return mode is True
    if fmeasure(fspec) == 'EDIT_DISTANCE':
        return mode is False
    return mode is True


def pair_partial(world, fspec):
    """filter_pair / filter_candset verdicts: OverlapFilter.filter_pair is
    judged in either tokenizer mode - its overlap is the number of distinct
    shared tokens (utils.simfunctions.overlap documents that lists are
    converted to sets), so "exact" has one meaning there; only filter_tables
    with a bag tokenizer (posting lists with multiplicity) stays unjudged."""
    if fspec['kind'] == 'OverlapFilter':
        return False
    return not filter_judged(world, fspec)


def filter_oracle_for(world, fspec, lrows, rrows, lkey, rkey, lattr, rattr):
    return model.filter_oracle(
        lrows, rrows, lkey, rkey, lattr, rattr,
        world.tokspec[fspec['tokenizer']], world.tok_mode(fspec['tokenizer']),
        fspec['kind'], fmeasure(fspec), fspec['threshold'],
        fspec.get('comp_op', '>='), fspec.get('allow_empty', True),
        fspec.get('allow_missing', False),
        partial=not filter_judged(world, fspec))


def candset_pairs(df, c_l, c_r):
    r = Res(df)
    il, ir = r.cols.index(c_l), r.cols.index(c_r)
    return r, [(row[il], row[ir]) for row in r.rows]


def judge_filter_candset(world, op, out, cand_df, results):
    """C06: result == candset[rows whose pair filter_pair does not drop];
    C04/C08/C09 on the model's must-keep / must-drop rows."""
    vs = []
    fspec = world.case['filters'][op['filter']]
    fkind = fspec['kind']
    comp = 'filter_candset:%s:%s' % (fkind, fmeasure(fspec))
    f = world.filters[op['filter']]
    cres, pairs = candset_pairs(cand_df, op['c_l'], op['c_r'])
    lby = _rows_by_key(world.rows[op['l']], op['l_key'])
    rby = _rows_by_key(world.rows[op['r']], op['r_key'])
    # row-wise filter_pair with the real filter object (harness-issued calls)
    ENV.log('harness', 'rowwise_filter_pair')
    keep = []
    ltab, rtab = world.tables[op['l']], world.tables[op['r']]
    lvals = dict(zip(ltab[op['l_key']].tolist(), ltab[op['l_attr']].tolist()))
    rvals = dict(zip(rtab[op['r_key']].tolist(), rtab[op['r_attr']].tolist()))
    with Quiet():
        for (lk, rk) in pairs:
            keep.append(not f.filter_pair(lvals[lk], rvals[rk]))
    res = out.res
    if len(cres.rows) == 0:
        # an empty candidate set is returned as it is
        if res.rows:
            vs.append(V('candset_rowwise', ['C06'], 'C06 %s rows' % comp,
                        'empty candidate set produced rows'))
        return vs
    exp_rows = [r for r, k in zip(cres.rows, keep) if k]
    exp_index = [i for i, k in zip(cres.index, keep) if k]
    if res.cols != cres.cols:
        vs.append(V('candset_rowwise', ['C06'], 'C06 %s columns' % comp,
                    'columns %r, candidate set has %r' % (res.cols, cres.cols)))
    elif res.rows != exp_rows:
        vs.append(V('candset_rowwise', ['C06'], 'C06 %s rows' % comp,
                    'survivors differ from row-wise filter_pair: got %d rows, '
                    'expected %d' % (len(res.rows), len(exp_rows)),
                    got=[list(r) for r in res.rows[:8]],
                    expected=[list(r) for r in exp_rows[:8]]))
    elif res.index != exp_index:
        vs.append(V('candset_rowwise', ['C06'], 'C06 %s index' % comp,
                    'index labels %r, expected %r' %
                    (res.index[:10], exp_index[:10])))
    # model verdicts (only the mode-independent ones if the tokenizer is not
    # in the mode C04 assumes)
    partial = pair_partial(world, fspec)
    if True:
        tokname = fspec['tokenizer']
        tok = model.Tok(world.tokspec[tokname], world.tok_mode(tokname))
        got_pairs = Counter()
        if res.cols == cres.cols:
            il, ir = res.cols.index(op['c_l']), res.cols.index(op['c_r'])
            for row in res.rows:
                got_pairs[(row[il], row[ir])] += 1
            for (lk, rk) in set(pairs):
                ls, rs = lby[lk][op['l_attr']], rby[rk][op['r_attr']]
                lt = None if model.is_missing(ls) else tok(ls)
                rt = None if model.is_missing(rs) else tok(rs)
                v, kind = model.filter_pair_verdict(
                    ls, rs, lt, rt, fkind, fmeasure(fspec),
                    fspec['threshold'], fspec.get('comp_op', '>='),
                    fspec.get('allow_empty', True),
                    fspec.get('allow_missing', False), partial)
                n_in = pairs.count((lk, rk))
                n_out = got_pairs.get((lk, rk), 0)
                if v == model.MUST and n_out < n_in:
                    p = _prop_for(None, kind, 'C04')
                    vs.append(V('must_missing', [p],
                                '%s %s %s-pair-lost' % (p, comp, kind),
                                'qualifying pair %r (%s) dropped by '
                                'filter_candset' % ((lk, rk), kind),
                                pair=[lk, rk]))
                if v == model.NOT and n_out > 0:
                    p = {'missing': 'C08', 'empty': 'C09',
                         'one_empty': 'C09'}.get(kind)
                    if fkind == 'OverlapFilter':
                        p = p if kind == 'missing' else 'C06'
                    if p:
                        vs.append(V('must_not_present', [p],
                                    '%s %s %s-pair-present' % (p, comp, kind),
                                    'pair %r (%s) must be dropped' %
                                    ((lk, rk), kind), pair=[lk, rk]))
    return vs


def judge_filter_pair(world, op, out):
    vs = []
    fspec = world.case['filters'][op['filter']]
    partial = pair_partial(world, fspec)
    fkind = fspec['kind']
    comp = 'filter_pair:%s:%s' % (fkind, fmeasure(fspec))
    tokname = fspec['tokenizer']
    tok = model.Tok(world.tokspec[tokname], world.tok_mode(tokname))
    ls, rs = op['ls'], op['rs']
    lt = None if model.is_missing(ls) else tok(ls)
    rt = None if model.is_missing(rs) else tok(rs)
    v, kind = model.filter_pair_verdict(
        ls, rs, lt, rt, fkind, fmeasure(fspec),
        fspec['threshold'], fspec.get('comp_op', '>='),
        fspec.get('allow_empty', True), fspec.get('allow_missing', False),
        partial)
    dropped = out.value
    if not isinstance(dropped, (bool,)) and dropped not in (0, 1):
        vs.append(V('filter_pair_type', ['C06'], 'C06 %s return-type' % comp,
                    'filter_pair returned %r' % (dropped,)))
        return vs
    if v == model.MUST and dropped:
        p = _prop_for(None, kind, 'C04')
        if fkind == 'OverlapFilter' and kind == 'normal':
            props = ['C04', 'C06']
        else:
            props = [p]
        vs.append(V('must_missing', props,
                    '%s %s %s-pair-lost' % (props[0], comp, kind),
                    'filter_pair drops qualifying pair (%r, %r)' % (ls, rs),
                    pair=[ls, rs]))
    if v == model.NOT and not dropped:
        p = {'missing': 'C08', 'empty': 'C09', 'one_empty': 'C09'}.get(kind)
        if fkind == 'OverlapFilter' and kind != 'missing':
            p = 'C06'
        if p:
            vs.append(V('must_not_present', [p],
                        '%s %s %s-pair-present' % (p, comp, kind),
                        'filter_pair keeps (%r, %r) which must be dropped' %
                        (ls, rs), pair=[ls, rs]))
    return vs


def _convert_values(value, col):
    import pandas as pd
    if isinstance(value, pd.DataFrame):
        value = value[col]
    if isinstance(value, pd.Series):
        return [norm_cell(v) for v in value.tolist()]
    return None


def judge_convert_labels(world, op, out, results, rep):
    """C10 for the converters: the converted values, position by position, do
    not depend on the index labels of the table - the same call on the same
    rows under the default 0..n-1 index must give the same values.  (What the
    values are is C16's subject and is not judged here.)"""
    from sim.world import norm_cell as _nc   # noqa: F401
    t = world.tables[op['t']]
    t2 = t.reset_index(drop=True)
    w_tables = world.tables
    try:
        world.tables = dict(w_tables)
        world.tables[op['t']] = t2
        fn, kw = build_call(world, op, results)
    finally:
        world.tables = w_tables
    try:
        with Quiet():
            v2 = fn(**kw)
    except Exception as e:   # noqa
        return [V('convert_labels', ['C10'],
                  'C10 convert raises-under-default-index',
                  'the same conversion on the table with a default index '
                  'raised %s: %s' % (type(e).__name__, str(e)[:200]))]
    rep['lib_calls'] += 1
    rep['stats']['variant:convert_default_index'] += 1
    a, b = _convert_values(out.value, op['col']), _convert_values(v2,
                                                                 op['col'])
    if a is None or b is None or a == b:
        if a and any(x is None for x in a) and any(x is not None for x in a) \
                and list(t.index) != list(range(len(t))):
            rep['tags'].add('C10')
        return []
    return [V('convert_labels', ['C10'],
              'C10 convert result-depends-on-index-labels',
              'converted column %r: %r with its own index labels, %r '
              'with the default index' % (op['col'], a[:8], b[:8]))]


def judge_apply_matcher(world, op, out, cand_df):
    vs = []
    simf = op['sim']
    measure = simf['measure']
    comp = 'apply_matcher:%s' % measure
    cres, pairs = candset_pairs(cand_df, op['c_l'], op['c_r'])
    res = out.res
    if len(cres.rows) == 0:
        if res.rows:
            vs.append(V('matcher_exact', ['C05'], 'C05 %s rows' % comp,
                        'empty candidate set produced rows'))
        return vs
    lby = _rows_by_key(world.rows[op['l']], op['l_key'])
    rby = _rows_by_key(world.rows[op['r']], op['r_key'])
    tokname = op.get('tok')
    tokspec = world.tokspec[tokname] if tokname is not None else None
    mode = world.tok_mode(tokname) if tokname is not None else None
    exp = model.matcher_expected(
        pairs, lby, rby, op['l_attr'], op['r_attr'], tokspec, mode, measure,
        op['threshold'], op.get('comp_op', '>='),
        op.get('allow_missing', False))
    lp, rp = op.get('l_prefix', 'l_'), op.get('r_prefix', 'r_')
    want_score = op.get('score', True)
    cols, lo, ro = model.out_columns(op['l_key'], op['r_key'], op.get('l_out'),
                                     op.get('r_out'), lp, rp, want_score)
    if res.cols != cols:
        vs.append(V('matcher_columns', [], 'unclaimed %s columns' % comp,
                    'columns %r, expected %r' % (res.cols, cols)))
        if len(res.cols) < 3:
            return vs
    first = [r[0] for r in cres.rows]
    exp_rows = [(first[n], pairs[n][0], pairs[n][1], sc) for n, sc in exp]
    si = res.cols.index('_sim_score') if '_sim_score' in res.cols else None
    got_rows = [(r[0], r[1], r[2], (r[si] if si is not None else None))
                for r in res.rows]
    exp_cmp = [(a, b, c, (None if (sc == 'nan' or si is None) else sc))
               for (a, b, c, sc) in exp_rows]
    has_missing = any(sc == 'nan' for _, sc in exp) or any(
        model.is_missing(lby[p[0]][op['l_attr']]) or
        model.is_missing(rby[p[1]][op['r_attr']]) for p in pairs)
    if [g[:3] for g in got_rows] != [e[:3] for e in exp_cmp]:
        props = ['C05']
        # is the disagreement only about rows with a missing side?
        def nomiss(rows):
            return [x[:3] for x in rows
                    if not (model.is_missing(lby[x[1]][op['l_attr']]) or
                            model.is_missing(rby[x[2]][op['r_attr']]))] \
                if all(x[1] in lby and x[2] in rby for x in rows) else None
        if has_missing and nomiss(got_rows) is not None and \
                nomiss(got_rows) == nomiss(exp_cmp):
            props = ['C08', 'C05']
        vs.append(V('matcher_exact', props, '%s %s rows' % (props[0], comp),
                    'kept rows differ: got %d, expected %d' %
                    (len(got_rows), len(exp_cmp)),
                    got=[list(g) for g in got_rows[:8]],
                    expected=[list(e) for e in exp_cmp[:8]]))
    if si is not None:
        for g in got_rows:
            if g[3] is None and g[1] in lby and g[2] in rby and not (
                    model.is_missing(lby[g[1]][op['l_attr']]) or
                    model.is_missing(rby[g[2]][op['r_attr']])):
                vs.append(V('score', ['C08', 'C05'],
                            'C08 %s NaN-score-for-present-values' % comp,
                            'row %r has a NaN score although neither value '
                            'is missing' % (g[:3],)))
                break
    if [g[:3] for g in got_rows] == [e[:3] for e in exp_cmp] and \
            si is not None:
        for g, e, (n, sc) in zip(got_rows, exp_cmp, exp):
            if sc == 'nan':
                if g[3] is not None:
                    vs.append(V('score', ['C08', 'C05'],
                                'C08 %s missing-score' % comp,
                                'row %r: score %r instead of NaN' %
                                (g[:3], g[3])))
            elif not (_eq(g[3], e[3]) and type(g[3]) is type(e[3]) or
                      _eq(g[3], e[3])):
                vs.append(V('score', ['C05'], 'C05 %s score' % comp,
                            'row %r: score %r, sim_function returns %r' %
                            (g[:3], g[3], e[3])))
                break
    # projection (not claimed by any property for apply_matcher: note only)
    if res.cols == cols:
        for row in res.rows:
            lr, rr = lby.get(row[1]), rby.get(row[2])
            if lr is None or rr is None:
                continue
            c = 3
            for a in lo:
                if not _eq(row[c], norm_cell(lr[a])):
                    vs.append(V('matcher_projection', [],
                                'unclaimed %s projection' % comp,
                                'row %r column %r' % (row[:3], cols[c])))
                c += 1
            for a in ro:
                if not _eq(row[c], norm_cell(rr[a])):
                    vs.append(V('matcher_projection', [],
                                'unclaimed %s projection' % comp,
                                'row %r column %r' % (row[:3], cols[c])))
                c += 1
    return vs


# ---------------------------------------------------------------------------
# state invariants
# ---------------------------------------------------------------------------

def check_state(world, call_ok, op, excused_flag=None):
    """2.6 (i)-(iii).  Returns violations; repairs tokenizer flags that an
    excused mid-call fault left flipped (and reports how many)."""
    vs = []
    comp = op_component(world, op)
    for name, df in world.tables.items():
        d = snap_diff(world.snap[name], snapshot(df))
        if d:
            vs.append(V('inputs_untouched', ['C12'],
                        'C12 %s table-modified:%s' % (comp, d),
                        'table %s changed (%s) during call' % (name, d)))
            world.snap[name] = snapshot(df)
    for name, df in world.candsets.items():
        d = snap_diff(world.cand_snap[name], snapshot(df))
        if d:
            vs.append(V('inputs_untouched', ['C12'],
                        'C12 %s candset-modified:%s' % (comp, d),
                        'candidate set %s changed (%s)' % (name, d)))
            world.cand_snap[name] = snapshot(df)
    flipped = 0
    for name, tok in world.toks.items():
        cfg = simtok.config_of(tok)
        # configuration = the attributes the tokenizer was constructed with; an
        # attribute added later (a private memo) is not configuration
        cfg = dict((k, v) for k, v in cfg.items() if k in world.tok_cfg[name])
        if cfg != world.tok_cfg[name]:
            only_flag = all(cfg.get(k) == v for k, v in
                            world.tok_cfg[name].items() if k != 'return_set') \
                and set(cfg) == set(world.tok_cfg[name])
            if excused_flag and only_flag:
                flipped += 1
            else:
                vs.append(V('tokenizer_restored', ['C12'],
                            'C12 %s tokenizer-changed' % comp,
                            'tokenizer %s configuration %r, was %r' %
                            (name, cfg, world.tok_cfg[name])))
            # put it back to the model's value and go on
            for k, v in world.tok_cfg[name].items():
                if k != 'class' and k in vars(tok) and not \
                        isinstance(vars(tok)[k], (set, frozenset)) and \
                        not hasattr(vars(tok)[k], 'pattern'):
                    setattr(tok, k, v)
            tok.return_set = world.tok_cfg[name]['return_set']
    from sim.world import (filter_config, global_state, global_state_diff,
                           restore_global_state)
    gd = global_state_diff(world.gstate, global_state())
    if gd:
        # a setting every later call in this process depends on ("no call
        # affects a later one"); put back so that the rest of the run, and the
        # next run in this interpreter, are not disturbed
        vs.append(V('process_state_untouched', ['C12'],
                    'C12 %s process-wide-setting-changed' % comp,
                    'process-wide settings changed by the call: %s' %
                    '; '.join(gd[:4])))
        restore_global_state(world.gstate)
    for name, f in world.filters.items():
        cfg = filter_config(f)
        if cfg != world.filter_cfg[name]:
            vs.append(V('filter_unchanged', ['C12'],
                        'C12 %s filter-object-changed' % comp,
                        'filter %s attributes %r, were %r' %
                        (name, cfg, world.filter_cfg[name])))
            world.filter_cfg[name] = cfg
    return vs, flipped


def op_component(world, op):
    k = op['op']
    if k == 'reject':
        return 'reject:' + op_component(world, op['base'])
    if k == 'join':
        return 'join:' + op['measure']
    if k in ('filter_tables', 'filter_candset', 'filter_pair'):
        fs = world.case['filters'].get(op['filter'], {})
        return '%s:%s:%s' % (k, fs.get('kind'), fmeasure(fs))
    if k == 'apply_matcher':
        return 'apply_matcher'
    if k == 'new_filter':
        return 'new_filter:%s' % op['spec'].get('kind')
    if k == 'pipeline':
        return 'pipeline:%s:%s' % (op['filter_spec']['kind'], op['measure'])
    return k


def flag_events_ok(out):
    """Over the call's slice of the log: every set_flag issued in a normally
    returning call is issued by the coordinator (never from inside a task) and
    the last set_flag per tokenizer restores the value the first one
    replaced."""
    problems = []
    by_tok = {}
    if out.fanouts and all(f['mode'] == 'process' for f in out.fanouts):
        # a process worker flips its own pickled copy: the caller's object is
        # not involved
        return problems
    for (_, _, actor, kind, detail) in out.events:
        if kind == 'set_flag':
            tid, val = detail
            if actor != 'coord':
                problems.append('set_return_set(%r) on %s issued by %s' %
                                (val, tid, actor))
            by_tok.setdefault(tid, []).append(val)
    return problems


# ---------------------------------------------------------------------------
# one history
# ---------------------------------------------------------------------------

def comparable_exact(world, op):
    """Entry points whose result multiset must not depend on n_jobs."""
    k = op['op']
    if k in ('join', 'apply_matcher', 'filter_candset'):
        return True
    if k == 'filter_tables':
        fs = world.case['filters'][op['filter']]
        return fs['kind'] in SAFE_TABLE_EXACT
    return False


def effective_jobs(out):
    if not out.fanouts:
        return 1
    return max(f['tasks'] for f in out.fanouts)


def validate_case(case):
    """Sanity of the generated / minimised document itself: a call the
    generator marks valid must really satisfy the documented preconditions that
    depend on the data (names exist, candidate pairs refer to existing keys,
    keys are unique and present).  A document that does not is a harness
    error, never a finding about the library."""
    for idx, op in enumerate(case['history']):
        k = op.get('op')
        if k not in ('join', 'filter_tables', 'filter_candset',
                     'apply_matcher', 'pipeline'):
            continue
        for side in ('l', 'r'):
            t = op.get(side)
            if not isinstance(t, str) or t not in case['tables']:
                raise HarnessError('call %d: unknown table %r' % (idx, t))
            spec = case['tables'][t]
            cols = spec['columns']
            for a in (op.get(side + '_key'), op.get(side + '_attr')):
                if a not in cols:
                    raise HarnessError('call %d: column %r not in table %s'
                                       % (idx, a, t))
            for a in (op.get(side + '_out') or []):
                if a not in cols:
                    raise HarnessError('call %d: output attribute %r not in '
                                       'table %s' % (idx, a, t))
            ki = cols.index(op[side + '_key'])
            keys = [r[ki] for r in spec['rows']]
            if len(set(keys)) != len(keys) or any(x is None for x in keys):
                raise HarnessError('call %d: %r is not a key of table %s'
                                   % (idx, op[side + '_key'], t))
            if spec['dtypes'].get(op[side + '_attr']) not in (
                    'object', 'str', 'string'):
                raise HarnessError('call %d: attribute %r of %s is not a '
                                   'string column' % (idx, op[side + '_attr'],
                                                      t))
        cs = op.get('candset')
        if isinstance(cs, str) and not cs.startswith('result_of:'):
            if cs not in case.get('candsets', {}):
                raise HarnessError('call %d: unknown candidate set %r'
                                   % (idx, cs))
            cspec = case['candsets'][cs]
            lk = set(r[case['tables'][op['l']]['columns'].index(op['l_key'])]
                     for r in case['tables'][op['l']]['rows'])
            rk = set(r[case['tables'][op['r']]['columns'].index(op['r_key'])]
                     for r in case['tables'][op['r']]['rows'])
            for a, b in cspec['pairs']:
                if a not in lk or b not in rk:
                    raise HarnessError('call %d: candidate pair (%r, %r) '
                                       'refers to a key that does not exist'
                                       % (idx, a, b))
            if op.get('c_l') != cspec['l_col'] or \
                    op.get('c_r') != cspec['r_col']:
                raise HarnessError('call %d: candidate set columns' % idx)


def execute_case(case, collect_samples=False):
    """Run the whole case.  Returns the report."""
    validate_case(case)
    ssj = install()
    ENV.reset()
    from sim.sched import MODSTATE
    MODSTATE.reset_workers()
    import warnings
    warnings.simplefilter('ignore')
    rep = {'violations': [], 'calls': 0, 'lib_calls': 0, 'stats': Counter(),
           'faults': Counter(), 'sigs': set(), 'tags': set(),
           'result_digests': [], 'notes': []}
    world = World(case, ssj)
    results = {}
    cpus = case.get('cpus', 4)
    for idx, op in enumerate(case['history']):
        rep['calls'] += 1
        try:
            vs = run_history_op(case, world, idx, op, results, rep, cpus)
        except HarnessError:
            raise
        for v in vs:
            v['call_index'] = idx
            v['op'] = op['op']
        rep['violations'].extend(vs)
    if len(case['history']) >= 3 and any(e[3] == 'set_flag'
                                         for e in ENV.events):
        rep['tags'].add('C12')
    for name, spec in case['tables'].items():
        if len(spec['rows']) <= 1 and rep['lib_calls']:
            rep['tags'].add('C15')
    kinds = Counter(e[3] for e in ENV.events)
    for k in ('yield_to', 'tokenize', 'sim_fn', 'set_flag', 'dispatch',
              'task_begin'):
        if kinds.get(k):
            rep['stats']['events:' + k] += kinds[k]
    rep['trace_digest'] = ENV.digest()
    rep['events'] = len(ENV.events)
    return rep


def fresh_world(case, upto=0):
    """Fresh objects in the state the caller's objects are in before call
    number `upto` (the caller's own tokenizer reconfigurations replayed)."""
    from sim.world import effective_tables
    et = effective_tables(case, upto)
    if et is not case['tables']:
        case = dict(case)
        case['tables'] = et
    w = World(case, install())
    w.apply_retunes(case['history'], upto)
    return w


def resolve_fault(case, idx, op, results_main, cpus):
    """A fault given as a fraction of the call's tokenize / sim_function /
    task count is resolved by a fault-free rehearsal of the same call with the
    same plan on fresh objects.  The resolved position is written back into the
    op, so a replay file does not depend on the rehearsal."""
    fault = op.get('fault')
    if not fault or fault.get('kind') not in ('tok_raise', 'sim_raise',
                                               'worker_crash'):
        return fault
    if fault.get('at') is not None or fault.get('after') is not None:
        return fault
    w2 = fresh_world(case, idx)
    saved = (ENV.events, ENV.seq)
    ENV.events, ENV.seq = [], 0
    try:
        res2 = dict((j, r.copy(deep=True)) for j, r in results_main.items())
        out = run_call(w2, op, idx, op.get('plan'), None, res2, cpus)
    finally:
        ENV.events, ENV.seq = saved
    frac = fault.get('frac', 0.5)
    f = dict(fault)
    if fault['kind'] == 'tok_raise':
        n = out.tok_events
        if n == 0:
            return None
        f['at'] = 1 + min(n - 1, int(frac * n))
    elif fault['kind'] == 'sim_raise':
        n = out.sim_events
        if n == 0:
            return None
        f['at'] = 1 + min(n - 1, int(frac * n))
    else:
        if not out.fanouts:
            return None
        fo = out.fanouts[min(len(out.fanouts) - 1, fault.get('fanout', 0))]
        f['fanout'] = fo['fanout']
        f['after'] = min(fo['tasks'] - 1, int(frac * fo['tasks']))
    op['fault'] = f
    return f


def run_history_op(case, world, idx, op, results, rep, cpus):
    kind = op['op']
    if kind == 'retune':
        world.retune(op['tok'], op['set'])
        rep['stats']['retunes'] += 1
        return []
    if kind == 'edit_table':
        if world.edit_table(op):
            rep['stats']['caller_table_edits:' + op.get('how', 'inplace')] += 1
        return []
    if kind == 'reject':
        from sim.reject import run_reject
        return run_reject(case, world, idx, op, results, rep, cpus)
    if kind == 'pipeline':
        from sim.pipeline import run_pipeline
        return run_pipeline(case, world, idx, op, results, rep, cpus)
    vs = []
    if kind in ('filter_candset', 'apply_matcher') and \
            isinstance(op.get('candset'), str) and \
            op['candset'].startswith('result_of:') and \
            int(op['candset'].split(':')[1]) not in results:
        rep['stats']['skipped_no_candset'] += 1
        return []
    fault = resolve_fault(case, idx, op, results, cpus)
    cand_df = None
    if kind in ('filter_candset', 'apply_matcher'):
        cand_df = _get_candset(world, op, results)
        cand_snap = snapshot(cand_df)
    out = run_call(world, op, idx, op.get('plan'), fault, results, cpus)
    rep['lib_calls'] += 1
    comp = op_component(world, op)
    if out.fault_fired:
        fk = out.fault_fired['kind']
        rep['faults'][fk + ':fired'] += 1
        where = out.fault_fired.get('actor', 'coord')
        rep['faults'][fk + (':in_task' if str(where).startswith('task')
                            else ':in_coord')] += 1
    if fault:
        rep['faults'][fault['kind'] + ':configured'] += 1
    faulted = out.fault_fired is not None
    # ---- how the call ended ---------------------------------------------
    if not out.ok:
        if out.exc_class in ('InjectedFault', 'SimWorkerCrash') and faulted:
            rep['stats']['calls_failed_by_fault'] += 1
        elif out.exc_class == 'StepCapExceeded':
            vs.append(V('valid_completes', ['C15'], 'C15 %s hang' % comp,
                        'valid call exceeded the step cap: %s' % out.exc_msg))
        else:
            # a valid call that raises returns none of what the entry point's
            # own property promises, besides breaking C15's second half
            props = ['C15'] + home_props(world, op)
            if _has_missing(world, op):
                props.append('C08')
            vs.append(V('valid_completes', props,
                        'C15 %s valid-call-raises:%s' % (comp, out.exc_class),
                        'valid call raised %s: %s' %
                        (out.exc_class, out.exc_msg), tb=out.tb))
    else:
        if faulted:
            # the fault fired and the call still returned: C10 (e): it must
            # then be the complete, correct answer -- judged below as usual,
            # and recorded
            # (a call that absorbs the failure, e.g. by retrying, and returns
            # the complete answer violates nothing; what it must never do is
            # return a partial or different answer: compared below with the
            # fault-free execution of the same call)
            rep['stats']['calls_returned_despite_fault'] += 1
    # ---- state invariants --------------------------------------------------
    svs, flipped = check_state(world, out.ok, op, excused_flag=(not out.ok))
    vs.extend(svs)
    if flipped:
        rep['stats']['flag_left_flipped_after_fault'] += flipped
    if cand_df is not None:
        d = snap_diff(cand_snap, snapshot(cand_df))
        if d:
            vs.append(V('inputs_untouched', ['C12'],
                        'C12 %s candset-modified:%s' % (comp, d),
                        'candidate set changed (%s) during call' % d))
    if out.ok:
        for p in flag_events_ok(out):
            vs.append(V('flag_from_task', ['C12'],
                        'C12 %s flag-set-inside-task' % comp, p))
    # ---- result --------------------------------------------------------------
    if out.ok:
        import pandas as pd
        is_df = isinstance(out.value, pd.DataFrame)
        if kind in ('join', 'filter_tables', 'filter_candset',
                    'apply_matcher', 'profile') and not is_df:
            vs.append(V('valid_completes', ['C15'],
                        'C15 %s not-a-dataframe' % comp,
                        'call returned %r' % type(out.value).__name__))
        elif kind == 'join':
            po = oracle_for(world, op)
            vs.extend(judge_table_result(world, op, out, po, 'join'))
            _probe_join(rep, op, out, po)
            results[idx] = out.value
        elif kind == 'filter_tables':
            fs = world.case['filters'][op['filter']]
            op2 = dict(op, fkind=fs['kind'],
                       measure=fmeasure(fs))
            po = oracle_for(world, op)
            if po is not None:
                vs.extend(judge_table_result(world, op2, out, po, 'filter'))
                _probe_filter(rep, op2, out, po)
            results[idx] = out.value
        elif kind == 'filter_candset':
            vs.extend(judge_filter_candset(world, op, out, cand_df, results))
            results[idx] = out.value
            if 0 < len(out.res.rows) < len(cand_df):
                rep['tags'].add('C06')
                rep['tags'].add('C04')
        elif kind == 'filter_pair':
            vs.extend(judge_filter_pair(world, op, out))
        elif kind == 'convert' and op.get('numeric'):
            vs.extend(judge_convert_labels(world, op, out, results, rep))
        elif kind == 'apply_matcher':
            vs.extend(judge_apply_matcher(world, op, out, cand_df))
            results[idx] = out.value
            cache = (op.get('tok') is not None and
                     len(world.tables[op['l']]) + len(world.tables[op['r']])
                     < 2 * len(cand_df))
            rep['stats']['matcher_cache_path' if cache else
                         'matcher_nocache_path'] += 1
            if 0 < len(out.res.rows) < len(cand_df) and \
                    (cache or effective_jobs(out) >= 2):
                rep['tags'].add('C05')
            if _has_missing(world, op):
                rep['tags'].add('C08')
        if out.res is not None:
            rep['result_digests'].append((idx, out.res.canon(drop=())))
        # schedule signature / non-triviality
        ej = effective_jobs(out)
        for fo in out.fanouts:
            rep['sigs'].add((comp, fo['tasks'], fo['mode'],
                             tuple(fo['dispatch']), tuple(fo['complete'])))
            rep['stats']['fanout_mode:' + fo['mode']] += 1
            if fo['mode'] == 'process' and (op.get('plan') or {}).get(
                    'reuse_workers', True):
                rep['stats']['fanout_process_persistent_workers'] += 1
            if fo['mode'] == 'threads' and (op.get('plan') or {}).get(
                    'line_p'):
                rep['stats']['fanout_threads_line_level_preemption'] += 1
        if ej >= 2:
            rep['stats']['calls_with_fanout'] += 1
    if out.ok and faulted and (out.res is not None or kind == 'filter_pair'):
        vs.extend(run_twin(case, world, idx, op, out, results, rep, cpus,
                           prop='C10', what='fault_changes_result'))
    # ---- twin and variants ------------------------------------------------
    if out.ok and out.res is not None and not faulted:
        if op.get('twin'):
            vs.extend(run_twin(case, world, idx, op, out, results, rep, cpus))
        for var in op.get('variants', []):
            vs.extend(run_variant(case, world, idx, op, out, var, results,
                                  rep, cpus))
    return vs


def home_props(world, op):
    k = op['op']
    if k == 'join':
        return (['C03'] if op['measure'] == 'EDIT_DISTANCE'
                else ['C01', 'C02']) + ['C11']
    if k in ('filter_tables', 'filter_pair'):
        fs = world.case['filters'].get(op['filter'], {})
        return ['C04'] + (['C06'] if fs.get('kind') == 'OverlapFilter'
                          else []) + (['C11'] if k == 'filter_tables' else [])
    if k == 'filter_candset':
        return ['C04', 'C06']
    if k == 'apply_matcher':
        return ['C05']
    return []


def _has_missing(world, op):
    try:
        for side, attr in (('l', 'l_attr'), ('r', 'r_attr')):
            t = op.get(side)
            if isinstance(t, str) and t in world.rows:
                if any(model.is_missing(r[op[attr]]) for r in world.rows[t]):
                    return True
    except Exception:   # noqa
        pass
    return False


def _probe_join(rep, op, out, po):
    st = rep['stats']
    kinds = Counter(po.kind[k] for k in po.must())
    st['must_pairs'] += sum(kinds.values())
    st['must_missing_pairs'] += kinds.get('missing', 0)
    st['must_empty_pairs'] += kinds.get('empty', 0)
    nm = len(po.must())
    nn = len(po.must_not())
    normal_must = kinds.get('normal', 0)
    normal_not = sum(1 for k in po.must_not() if po.kind[k] == 'normal')
    if normal_must and normal_not:
        rep['tags'].add('C03' if op['measure'] == 'EDIT_DISTANCE' else 'C01')
    if len(out.res.rows) >= 2 and effective_jobs(out) >= 2 and \
            op['measure'] != 'EDIT_DISTANCE':
        rep['tags'].add('C02')
    allk = Counter(po.kind.values())
    if allk.get('missing'):
        rep['tags'].add('C08')
        st['calls_with_missing_pairs'] += 1
        if op.get('allow_missing'):
            st['calls_with_missing_pairs_allowed'] += 1
    if allk.get('empty'):
        rep['tags'].add('C09')
        st['calls_with_empty_pairs'] += 1
    if allk.get('one_empty'):
        st['calls_with_one_side_empty_pairs'] += 1
    if out.res.rows and (op.get('l_out') or op.get('r_out')):
        rep['tags'].add('C11')
    n_may = sum(1 for v in po.verdict.values() if v == model.MAY)
    st['straddle_pairs'] += n_may
    # reach probes (DESIGN 4: C01, C09)
    if op['measure'] in ('JACCARD', 'COSINE', 'DICE'):
        t = op['threshold']
        for k in po.must():
            if po.kind[k] != 'normal':
                continue
            a, b, o = po.sizes[k]
            if any(_eq(sc, round(t, 4)) for sc in (po.scores[k] or [])):
                st['probe_must_pair_exactly_on_threshold'] += 1
            for n in (a, b):
                for prod in (t * n, t * t * n, t / (2 - t) * n):
                    if prod != round(prod) and abs(prod - round(prod)) < 1e-9:
                        st['probe_threshold_size_product_off_integer'] += 1
                        break
            if max(a, b) >= 18:
                st['probe_must_pair_with_18plus_tokens'] += 1
    ej = effective_jobs(out)
    if ej >= 2 and po.r_empty_pos and po.r_present:
        n = po.r_present
        size = 1.0 / ej * n
        bounds = [(int(round(i * size)), int(round((i + 1) * size)))
                  for i in range(ej)]
        empties = set(po.r_empty_pos)
        for ci, (a, b) in enumerate(bounds):
            rows = range(a, b)
            if not len(rows):
                st['probe_empty_chunk'] += 1
                continue
            ne = sum(1 for i in rows if i in empties)
            if ne:
                where = 'first' if ci == 0 else ('last' if ci == ej - 1
                                                 else 'middle')
                st['probe_empty_right_row_in_%s_chunk' % where] += 1
                if ne == len(rows):
                    st['probe_chunk_of_only_empty_rows'] += 1
        if po.l_empty >= 2:
            st['probe_left_empties_ge2_with_fanout'] += 1


def _probe_filter(rep, op, out, po):
    st = rep['stats']
    nm = len(po.must())
    st['filter_must_keep'] += nm
    total = len(po.verdict)
    kept = len(out.res.rows)
    if nm and kept < total:
        rep['tags'].add('C04')
        if op['fkind'] == 'OverlapFilter':
            rep['tags'].add('C06')
    allk = Counter(po.kind.values())
    if allk.get('missing'):
        rep['tags'].add('C08')
    if allk.get('empty'):
        rep['tags'].add('C09')
    if out.res.rows and (op.get('l_out') or op.get('r_out')):
        rep['tags'].add('C11')


# ---------------------------------------------------------------------------
# isolation twin (C12) and variants (C10)
# ---------------------------------------------------------------------------

def _compare(world, op, base_res, other_res, exact, po, what, prop, comp):
    """Compare two results of the same logical call.  exact: multisets equal;
    otherwise only the model's must rows have to be in both."""
    vs = []
    if base_res.cols != other_res.cols:
        vs.append(V(what, [prop], '%s %s %s:columns' % (prop, comp, what),
                    'columns differ: %r vs %r' %
                    (base_res.cols, other_res.cols)))
        return vs
    if exact:
        a = base_res.multiset()[1]
        b = other_res.multiset()[1]
        if a != b:
            only_a = list((a - b).elements())[:5]
            only_b = list((b - a).elements())[:5]
            vs.append(V(what, [prop], '%s %s %s:rows' % (prop, comp, what),
                        'result rows differ: %d vs %d rows; only in first %r; '
                        'only in second %r' % (sum(a.values()), sum(b.values()),
                                               only_a, only_b)))
    elif po is not None and not comp.startswith('filter_tables:SuffixFilter'):
        # (SuffixFilter: known finding K1 loses qualifying pairs depending on
        # the chunking; its losses are judged on the main call, with the K1
        # predicate, not across variants)
        got = set((r[1], r[2]) for r in other_res.rows)
        lost = [k for k in po.must() if k not in got]
        if lost:
            vs.append(V(what, [prop], '%s %s %s:must-rows' % (prop, comp, what),
                        'qualifying pairs %r missing in the variant' %
                        (lost[:5],)))
    return vs


def run_twin(case, world, idx, op, out, results, rep, cpus, prop='C12',
             what='isolation_twin'):
    """The same call in isolation: fresh objects, n_jobs=1, no plan, no
    fault."""
    w2 = fresh_world(case, idx)
    op2 = dict(op)
    op2['n_jobs'] = 1
    op2.pop('fault', None)
    res2 = dict((j, r.copy(deep=True)) for j, r in results.items())
    o2 = run_call(w2, op2, idx, {'mode': 'inline'}, None, res2, cpus)
    rep['lib_calls'] += 1
    rep['stats']['twins'] += 1
    comp = op_component(world, op)
    if not o2.ok:
        return [V(what, [prop], '%s %s twin-raises' % (prop, comp),
                  'call succeeded in the history but raises in isolation: %s'
                  % o2.brief())]
    if o2.res is None:
        if op['op'] == 'filter_pair' and o2.value != out.value:
            return [V(what, [prop], '%s %s %s:value' % (prop, comp, what),
                      'filter_pair gives %r in the history, %r in isolation'
                      % (out.value, o2.value))]
        return []
    exact = comparable_exact(world, op) or effective_jobs(out) == 1
    po = None
    if not exact:
        po = oracle_for(world, op)
    return _compare(world, op, out.res, o2.res, exact, po, what, prop, comp)


def _fit_perm(perm, n):
    """A permutation written for another row count (rows were added by a
    later scenario, or dropped by the minimiser) is fitted to n rows."""
    seen, out = set(), []
    for i in perm:
        if isinstance(i, int) and 0 <= i < n and i not in seen:
            seen.add(i)
            out.append(i)
    out.extend(i for i in range(n) if i not in seen)
    return out


def _fit_list(vals, n, fill):
    vals = list(vals)[:n]
    while len(vals) < n:
        vals.append(fill(len(vals)))
    return vals


def _permute_spec(spec, perm):
    perm = _fit_perm(perm, len(spec['rows']))
    s = dict(spec)
    s['rows'] = [spec['rows'][i] for i in perm]
    if spec.get('index') is not None:
        s['index'] = [spec['index'][i] for i in perm]
    return s


def variant_case(case, op, var):
    """Build the case (world) for a presentation variant."""
    c2 = dict(case)
    c2['tables'] = dict(case['tables'])
    what = var['what']
    if what == 'permute':
        for side in ('l', 'r'):
            perm = var.get(side + '_perm')
            if perm is not None:
                name = op[side]
                c2['tables'][name] = _permute_spec(c2['tables'][name], perm)
        # left and right may be the same table object: permuted once is fine
    elif what == 'relabel':
        for side in ('l', 'r'):
            lab = var.get(side + '_index')
            if lab is not None:
                s = dict(c2['tables'][op[side]])
                s['index'] = _fit_list(lab, len(s['rows']),
                                       lambda i: 'fit%d' % i)
                c2['tables'][op[side]] = s
    elif what == 'addcols':
        for side in ('l', 'r'):
            extra = var.get(side + '_extra')
            order = var.get(side + '_order')
            if extra is None and order is None:
                continue
            s = copy.deepcopy(c2['tables'][op[side]])
            if extra:
                for cname, dt, vals in extra:
                    s['columns'] = s['columns'] + [cname]
                    s['dtypes'][cname] = dt
                    dflt = vals[0] if vals else (0 if dt == 'int64' else None)
                    vals = _fit_list(vals, len(s['rows']), lambda i: dflt)
                    s['rows'] = [r + [v] for r, v in zip(s['rows'], vals)]
            if order:
                order = [c for c in order if c in s['columns']]
                pos = [s['columns'].index(c) for c in order] + \
                    [i for i, c in enumerate(s['columns']) if c not in order]
                s['columns'] = [s['columns'][i] for i in pos]
                s['rows'] = [[r[i] for i in pos] for r in s['rows']]
            c2['tables'][op[side]] = s
    return c2


def run_drop_missing(case, world, idx, op, out, rep, cpus):
    """C08: the part of the result over present values is unchanged - the
    same call on the tables with the missing rows removed and
    allow_missing=False must give exactly the rows of this result that have no
    missing side."""
    comp = op_component(world, op)
    c2 = dict(case)
    c2['tables'] = dict(case['tables'])
    miss = {'l': set(), 'r': set()}
    if op['l'] == op['r'] and op['l_attr'] != op['r_attr']:
        return []         # same table, different attributes: rows differ
    for side in ('l', 'r'):
        spec = dict(case['tables'][op[side]])
        ai = spec['columns'].index(op[side + '_attr'])
        ki = spec['columns'].index(op[side + '_key'])
        keep = [n for n, r in enumerate(spec['rows']) if r[ai] is not None]
        miss[side] = set(r[ki] for r in spec['rows'] if r[ai] is None)
        spec['rows'] = [spec['rows'][n] for n in keep]
        if spec.get('index') is not None:
            spec['index'] = [spec['index'][n] for n in keep]
        c2['tables'][op[side]] = spec
    if not miss['l'] and not miss['r']:
        return []
    w2 = fresh_world(c2, idx)
    op2 = dict(op)
    op2.pop('fault', None)
    if op['op'] == 'join':
        op2['allow_missing'] = False
    o2 = run_call(w2, op2, idx, op.get('plan'), None, {}, cpus)
    rep['lib_calls'] += 1
    rep['stats']['variant:drop_missing'] += 1
    if not o2.ok or o2.res is None:
        return [V('present_part', ['C08', 'C15'],
                  'C08 %s without-missing-rows-raises' % comp,
                  'the call on the tables without their missing rows: %s' %
                  o2.brief())]
    a = Counter(r[1:] for r in out.res.rows
                if r[1] not in miss['l'] and r[2] not in miss['r'])
    b = Counter(r[1:] for r in o2.res.rows
                if r[1] not in miss['l'] and r[2] not in miss['r'])
    if out.res.cols != o2.res.cols:
        return []
    if a != b:
        return [V('present_part', ['C08'],
                  'C08 %s present-part-changes-with-missing-rows' % comp,
                  'rows over present values differ when the missing rows are '
                  'removed: only with missing rows %r, only without %r' %
                  (list((a - b).elements())[:4],
                   list((b - a).elements())[:4]))]
    return []


def run_variant(case, world, idx, op, out, var, results, rep, cpus):
    what = var['what']
    if what == 'drop_missing':
        if op['op'] == 'join' or (op['op'] == 'filter_tables' and
                                  comparable_exact(world, op) and
                                  world.case['filters'][op['filter']].get(
                                      'allow_missing') is False):
            return run_drop_missing(case, world, idx, op, out, rep, cpus)
        return []
    comp = op_component(world, op)
    rep['stats']['variant:' + what] += 1
    op2 = dict(op)
    op2.pop('fault', None)
    op2.pop('variants', None)
    plan = var.get('plan', op.get('plan'))
    cp = var.get('cpus', cpus)
    same_objects = False
    if what == 'copy_right':
        if op.get('l') != op.get('r') or not isinstance(op.get('r'), str):
            return []
        c2 = dict(case)
        c2['tables'] = dict(case['tables'])
        cname = op['r'] + '__copy'
        c2['tables'][cname] = copy.deepcopy(case['tables'][op['r']])
        op2['r'] = cname
        w2 = fresh_world(c2, idx)
    elif what == 'n_jobs':
        op2['n_jobs'] = var['n_jobs']
        w2 = fresh_world(case, idx)
    elif what == 'repeat':
        w2 = world
        same_objects = True
    else:
        w2 = fresh_world(variant_case(case, op, var), idx)
    if isinstance(op.get('candset'), str) and \
            op['candset'].startswith('result_of:'):
        res2 = dict((j, r.copy(deep=True)) for j, r in results.items())
    else:
        res2 = results
    o2 = run_call(w2, op2, idx, plan, None, res2, cp)
    rep['lib_calls'] += 1
    for fo in o2.fanouts:
        rep['sigs'].add((comp, fo['tasks'], fo['mode'],
                         tuple(fo['dispatch']), tuple(fo['complete'])))
    vs = []
    if same_objects:
        svs, _ = check_state(world, o2.ok, op)
        vs.extend(svs)
    if not o2.ok:
        vs.append(V('variant_' + what, ['C10', 'C15'],
                    'C10 %s %s-variant-raises:%s' % (comp, what, o2.exc_class),
                    'call succeeds, but the %s variant %r raises %s' %
                    (what, dict((k, v) for k, v in var.items()
                                if k not in ('l_extra', 'r_extra')),
                     o2.brief()), tb=o2.tb))
        return vs
    if o2.res is None or out.res is None:
        if op['op'] == 'filter_pair' and o2.value != out.value:
            vs.append(V('variant_' + what, ['C10'],
                        'C10 %s %s-variant:value' % (comp, what),
                        'filter_pair: %r vs %r' % (out.value, o2.value)))
        return vs
    ej1, ej2 = effective_jobs(out), effective_jobs(o2)
    k = op['op']
    exact_family = comparable_exact(world, op)
    if what == 'n_jobs':
        exact = exact_family or (ej1 == ej2 and ej1 == 1)
    elif what == 'permute':
        # a permutation of the right table changes chunk contents, which the
        # property lists as a legitimate source of variation for the
        # superfluous candidates of Prefix/Position/Suffix filter_tables
        exact = exact_family or (ej1 == 1 and ej2 == 1) or \
            (var.get('r_perm') is None and op.get('l') != op.get('r'))
    else:
        exact = True
    po = None
    if not exact and k == 'filter_tables':
        po = oracle_for(world, op)
    b, o = out.res, o2.res
    if what == 'addcols' and k in ('filter_candset',):
        pass
    if k == 'filter_candset' and what in ('permute', 'relabel', 'addcols'):
        # the result is a sub-table of the candidate set: rows, order and
        # labels must be identical
        if b.cols != o.cols or b.rows != o.rows or b.index != o.index:
            vs.append(V('variant_' + what, ['C10'],
                        'C10 %s %s-variant:rows' % (comp, what),
                        'filter_candset result changes with table '
                        'presentation'))
        return vs
    vs.extend(_compare(world, op, b, o, exact, po, 'variant_' + what, 'C10',
                       comp))
    if k in ('join', 'filter_tables'):
        ids = o.col('_id') if '_id' in o.cols else None
        if ids is not None and ids != list(range(len(o.rows))):
            vs.append(V('id_range', ['C10'], 'C10 %s _id-not-0..n-1' % comp,
                        '_id column of the %s variant is %r' %
                        (what, ids[:20])))
    if what == 'n_jobs' and ej2 >= 2:
        tasks_with_rows = 0
        rep['stats']['njobs_variants_with_fanout'] += 1
        if len(o.rows) > 0:
            rep['tags'].add('C10')
    return vs
