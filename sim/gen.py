"""Seeded workload / schedule / fault generator: one integer -> one JSON case.

The generator is the only consumer of the run's PRNG.  The executor runs the
JSON document, never the seed, so replay and minimisation do not depend on this
file staying unchanged.
"""
import math
import random
from fractions import Fraction

SET_JOINS = ['JACCARD', 'COSINE', 'DICE', 'OVERLAP_COEFFICIENT', 'OVERLAP']
FILTER_MEASURES = ['JACCARD', 'COSINE', 'DICE', 'OVERLAP', 'EDIT_DISTANCE']
SAFE_FILTERS = ['SizeFilter', 'PrefixFilter', 'PositionFilter', 'SuffixFilter']
PROP_NO = dict(('C%02d' % i, i) for i in range(1, 18))


def mix(seed, prop_no, i):
    x = (seed * 0x9E3779B97F4A7C15 + prop_no * 0xBF58476D1CE4E5B9 +
         i * 0x94D049BB133111EB + 0x2545F4914F6CDD1D) & 0xFFFFFFFFFFFFFFFF
    x ^= x >> 31
    x = (x * 0xD6E8FEB86659FD93) & 0xFFFFFFFFFFFFFFFF
    x ^= x >> 29
    return x


# ---------------------------------------------------------------------------
# profiles
# ---------------------------------------------------------------------------

BASE = dict(
    ops={'join': 1.0}, hist=(1, 2), rows=(0, 10), n_tables=(2, 2),
    p_missing=0.08, p_empty=0.08, jobs_multi=0.65, twin=0.0,
    variants={}, faults={}, p_fault=0.0, reject=0.0, tight=0.35,
    treacherous=0.5, shapes=0.05, str_dtype=0.3, measures=SET_JOINS,
    threads=0.2, process=0.5, extras=0.5, outs=0.5, big=0.1,
    wrong_mode_filters=0.0, siblings=0.08, retune=0.0, qgram_pref=0.2,
    fault_hist=0.12, edit=0.0, hashproc=0.0, convert_numeric=0.0)


def profile(prop):
    p = dict(BASE)
    if prop == 'C01':
        p.update(tight=0.6, treacherous=0.7, big=0.25, p_missing=0.04,
                 p_empty=0.04, edit=0.12, hist=(1, 3))
    elif prop == 'C02':
        p.update(tight=0.3, outs=0.8, p_missing=0.15, rows=(0, 12), edit=0.08,
                 hist=(1, 3))
    elif prop == 'C03':
        p.update(measures=['EDIT_DISTANCE'], tight=0.0, siblings=0.2)
    elif prop == 'C04':
        p.update(ops={'filter_tables': 0.45, 'filter_candset': 0.25,
                      'filter_pair': 0.3}, tight=0.6, treacherous=0.7,
                 hist=(1, 3), big=0.2, siblings=0.3, retune=0.1, hashproc=0.015)
    elif prop == 'C05':
        p.update(ops={'apply_matcher': 1.0}, hist=(1, 2), p_missing=0.12,
                 siblings=0.2)
    elif prop == 'C06':
        p.update(ops={'filter_candset': 0.6, 'overlap_tables': 0.25,
                      'overlap_pair': 0.15}, hist=(1, 3), siblings=0.25)
    elif prop == 'C07':
        p.update(ops={'pipeline': 1.0}, hist=(1, 1), tight=0.4, p_missing=0.05,
                 siblings=0.25)
    elif prop == 'C08':
        p.update(ops={'join': 0.55, 'filter_tables': 0.2,
                      'filter_candset': 0.08, 'apply_matcher': 0.1,
                      'filter_pair': 0.07},
                 p_missing=0.3, p_empty=0.15, missing_shapes=True,
                 allow_missing=0.7,
                 measures=SET_JOINS + ['EDIT_DISTANCE'], tight=0.1,
                 variants={'drop_missing': 0.5}, outs=0.6)
    elif prop == 'C09':
        p.update(ops={'join': 0.45, 'filter_tables': 0.3, 'filter_pair': 0.12,
                      'filter_candset': 0.13}, qgram_pref=0.5,
                 p_empty=0.35, tight=0.1, empty_bias=True, hist=(1, 3),
                 retune=0.25)
    elif prop == 'C10':
        p.update(ops={'join': 0.45, 'filter_tables': 0.2,
                      'filter_candset': 0.12, 'apply_matcher': 0.15,
                      'filter_pair': 0.08, 'convert': 0.04},
                 convert_numeric=0.8,
                 measures=SET_JOINS + ['EDIT_DISTANCE'], hist=(1, 2),
                 rows=(0, 14), big=0.15,
                 variants={'n_jobs': 2.0, 'permute': 0.7, 'relabel': 0.4,
                           'addcols': 0.4, 'repeat': 0.4, 'copy_right': 0.9},
                 faults={'worker_crash': 0.5, 'tok_raise': 0.4,
                         'sim_raise': 0.1}, p_fault=0.25, tight=0.15,
                 siblings=0.2)
    elif prop == 'C11':
        p.update(ops={'join': 0.6, 'filter_tables': 0.4}, outs=1.0, extras=1.0,
                 measures=SET_JOINS + ['EDIT_DISTANCE'], p_missing=0.15,
                 allow_missing=0.5, tight=0.1)
    elif prop == 'C12':
        p.update(ops={'join': 0.38, 'filter_tables': 0.14,
                      'filter_candset': 0.15, 'filter_pair': 0.08,
                      'apply_matcher': 0.12, 'profile': 0.05, 'convert': 0.05,
                      'pipeline': 0.05},
                 measures=SET_JOINS + ['EDIT_DISTANCE', 'EDIT_DISTANCE'],
                 hist=(3, 10), n_tables=(2, 4), twin=1.0, reject=0.12,
                 faults={'worker_crash': 0.3, 'tok_raise': 0.5,
                         'sim_raise': 0.2}, p_fault=0.2, rows=(0, 8),
                 tight=0.1, wrong_mode_filters=0.3, chain_candsets=0.5,
                 threads=0.35, siblings=0.25, retune=0.08, edit=0.06,
                 convert_numeric=0.6)
    elif prop == 'C15':
        p.update(ops={'join': 0.4, 'filter_tables': 0.2, 'filter_candset': 0.1,
                      'apply_matcher': 0.1, 'filter_pair': 0.05,
                      'profile': 0.1, 'pipeline': 0.05},
                 measures=SET_JOINS + ['EDIT_DISTANCE'], hist=(1, 4),
                 shapes=0.6, str_dtype=0.5, reject=0.0, rows=(0, 6),
                 tight=0.05, retune=0.1)
    return p


# ---------------------------------------------------------------------------
# thresholds
# ---------------------------------------------------------------------------

def _ratio(measure, t):
    """Exact rational r with 'required size/overlap' = r * n for a subset pair."""
    if measure == 'JACCARD':
        return t
    if measure == 'COSINE':
        return t * t
    if measure == 'DICE':
        return t / (2 - t)
    return t


def decimal_threshold(rng):
    fam = rng.random()
    if fam < 0.45:
        k = rng.randint(1, 100)
        return Fraction(k, 100)
    if fam < 0.6:
        return Fraction(rng.randint(1, 1000), 1000)
    if fam < 0.75:
        return Fraction(rng.randint(1, 20), 20)
    if fam < 0.9:
        return Fraction(rng.randint(1, 10), 10)
    return Fraction(1, 1)


def frac_threshold(rng):
    q = rng.choice([2, 3, 4, 5, 6, 7, 8, 9, 11, 12])
    p = rng.randint(1, q)
    return Fraction(p, q)


def _double_products(measure, t, n):
    """The products a size / prefix / overlap bound may form in double
    precision for threshold t and size n (plain floating-point facts)."""
    if measure == 'JACCARD':
        return [t * n, n / t, (t / (1 + t)) * n, n - (1 - t) * n]
    if measure == 'COSINE':
        return [t * t * n, n / (t * t), n - (1 - t * t) * n]
    if measure == 'DICE':
        return [(t / (2 - t)) * n, ((2 - t) / t) * n, (t / 2) * n,
                n - (1 - t / (2 - t)) * n]
    return [t * n]


def _anomalous(measure, t, n, m):
    """Does some double product differ from the exact rational value, which
    is an integer?"""
    tf = float(t)
    exact = [_ratio(measure, t) * n, n / _ratio(measure, t)]
    for d in _double_products(measure, tf, n):
        for e in exact:
            if e.denominator == 1 and abs(d - float(e)) < 1e-6 and \
                    d != float(e):
                return True
    return False


def treacherous_pair(rng, measure, max_n):
    """(t, n, m): t*n (resp. the cosine / dice analogue) is an integer m in
    exact arithmetic, so the double product may land on either side of m.
    With probability 0.6 only pairs whose double product really is off the
    integer are accepted."""
    want_anomaly = rng.random() < 0.5
    fallback = None
    for _ in range(150):
        t = decimal_threshold(rng)
        r = _ratio(measure, t)
        d = r.denominator
        if d <= max_n and r > 0:
            mult = rng.randint(1, max(1, max_n // d))
            n = d * mult
            m = int(r * n)
            if 1 <= m <= n:
                if not want_anomaly or _anomalous(measure, t, n, m):
                    return float(t), n, m
                fallback = (float(t), n, m)
    return fallback


def gen_threshold(rng, measure, prof, fine=False):
    if fine and measure in ('JACCARD', 'COSINE', 'DICE') and \
            rng.random() < 0.3:
        q = rng.choice([2, 3, 4, 5, 6, 7, 9])
        d = rng.choice([5, 6])
        v = round(rng.randint(1, q) / float(q), d) + \
            rng.choice([-1, 1]) * 10.0 ** -d
        return min(1.0, max(10.0 ** -d, round(v, d)))
    if measure == 'OVERLAP':
        return rng.choice([1, 1, 2, 2, 3, 4, 5])
    if measure == 'EDIT_DISTANCE':
        v = rng.choice([0, 1, 1, 2, 2, 3, 4])
        return float(v) if rng.random() < 0.15 else v
    x = rng.random()
    if x < 0.6:
        return float(decimal_threshold(rng))
    if x < 0.78:
        return float(frac_threshold(rng))
    if x < 0.86:
        # an attainable fraction written with 4 decimals (rounded up or down)
        q = rng.choice([3, 6, 7, 9, 11, 12, 13])
        return round(rng.randint(1, q) / float(q), 4)
    if x < 0.92:
        # ... or with 5 / 6 decimals, a hair above or below the fraction
        q = rng.choice([3, 6, 7, 9, 11, 12, 13])
        d = rng.choice([5, 6])
        v = round(rng.randint(1, q) / float(q), d) + \
            rng.choice([-1, 0, 1]) * 10.0 ** -d
        return min(1.0, max(10.0 ** -d, round(v, d)))
    return rng.choice([1.0, 0.5, 0.0001, 0.9999, 0.3333, 0.6667])


# ---------------------------------------------------------------------------
# world
# ---------------------------------------------------------------------------

STYLES = ['tn', 'letters', 'unicode']


def make_alphabet(rng, style, size):
    if style == 'tn':
        return ['t%d' % i for i in range(size)]
    if style == 'letters':
        out = []
        for i in range(size):
            out.append('k' + chr(97 + i // 26) + chr(97 + i % 26))
        return out
    pool = ['é', 'ü', 'β', '中', 'ß', 'ж',
            'ñ', 'œ']
    return ['%s%d' % (pool[i % len(pool)], i) for i in range(size)]


def zipf_pick(rng, alphabet, skew):
    n = len(alphabet)
    if skew <= 0:
        return alphabet[rng.randrange(n)]
    i = int(n * (rng.random() ** (1 + skew)))
    return alphabet[min(i, n - 1)]


def join_tokens(rng, toks, seps):
    if not toks:
        return rng.choice(['', '', ' ', '  ', ','])[:1] if seps == [' '] \
            else rng.choice(['', ' ', ',', ' , '])
    out = [toks[0]]
    for t in toks[1:]:
        out.append(rng.choice(seps))
        out.append(t)
    s = ''.join(out)
    if rng.random() < 0.1:
        s = ' ' + s
    if rng.random() < 0.1:
        s = s + ' '
    return s


def perturb_tokens(rng, base, alphabet, skew):
    toks = list(base)
    n_edit = rng.choice([0, 0, 1, 1, 2, 3])
    for _ in range(n_edit):
        x = rng.random()
        if x < 0.4 and toks:
            toks.pop(rng.randrange(len(toks)))
        elif x < 0.8:
            toks.insert(rng.randint(0, len(toks)), zipf_pick(rng, alphabet,
                                                             skew))
        elif toks:
            toks.append(rng.choice(toks))
    rng.shuffle(toks)
    return toks


def perturb_string(rng, s, chars):
    s = list(s)
    for _ in range(rng.choice([0, 0, 1, 1, 2, 3])):
        x = rng.random()
        if x < 0.33 and s:
            s.pop(rng.randrange(len(s)))
        elif x < 0.66:
            s.insert(rng.randint(0, len(s)), rng.choice(chars))
        elif s:
            s[rng.randrange(len(s))] = rng.choice(chars)
    return ''.join(s)


class G(object):
    """Generation context of one run."""

    def __init__(self, rng, prof, prop):
        self.rng = rng
        self.prof = prof
        self.prop = prop
        self.case = None
        self.tables = []     # metadata dicts
        self.toks = []       # (name, spec)
        self.filters = []    # (name, spec)
        self.candsets = []
        self.results_candsets = []   # (call index, l table, r table, lp, rp)


def gen_world(g):
    rng, prof = g.rng, g.prof
    style = rng.choice(STYLES)
    asize = rng.choice([3, 4, 6, 8, 12, 20, 30])
    g.alphabet = make_alphabet(rng, style, asize)
    g.skew = rng.choice([0, 0.5, 1.5])
    g.chars = rng.choice(['ab', 'abc', 'abcd', 'abé', 'abcde'])
    g.seps = rng.choice([[' '], [' '], [' ', '  '], [' ', ','], [' ', '\t']])
    g.cpus = rng.choice([1, 2, 3, 4, 8, 16])
    big = rng.random() < prof['big']
    maxtok = rng.choice([3, 5, 8, 12]) if not big else rng.choice([20, 40])
    g.maxtok = maxtok
    nb = rng.randint(1, 4)
    g.bases = [[zipf_pick(rng, g.alphabet, g.skew)
                for _ in range(rng.randint(1, maxtok))] for _ in range(nb)]
    g.sbases = [''.join(rng.choice(g.chars)
                        for _ in range(rng.randint(0, 9))) for _ in range(nb)]
    nt = rng.randint(*prof['n_tables'])
    case = {'format': 1, 'cpus': g.cpus, 'tables': {}, 'tokenizers': {},
            'filters': {}, 'candsets': {}, 'history': []}
    g.case = case
    for i in range(nt):
        gen_table(g, 'T%d' % i, big)
    # tokenizers
    ntok = rng.randint(2, 4)
    kinds = ['ws', 'ws', 'delim', 'qgram', 'qgram', 'alnum', 'alpha']
    have_q = False
    for i in range(ntok):
        kind = rng.choice(kinds)
        if i == ntok - 1 and not have_q:
            kind = 'qgram'
        spec = {'kind': kind, 'return_set': rng.random() < 0.5}
        if kind == 'delim':
            spec['delims'] = rng.choice([[' '], [',', ' '], [','],
                                         [' ', '\t', ',']])
        if kind == 'qgram':
            have_q = True
            spec['qval'] = rng.choice([1, 2, 2, 3, 3, 4])
            spec['padding'] = rng.random() < 0.6
            if rng.random() < 0.15:
                spec['prefix_pad'] = '^'
                spec['suffix_pad'] = '!'
        name = 'K%d' % i
        case['tokenizers'][name] = spec
        g.toks.append((name, spec))
    case['tokenizers']['DEFAULT'] = 'library default of edit_distance_join'
    return case


def gen_table(g, name, big):
    rng, prof = g.rng, g.prof
    lo, hi = prof['rows']
    n = rng.randint(lo, hi)
    if big and rng.random() < 0.5:
        n = rng.randint(hi, 40)
    shape = 'normal'
    if rng.random() < prof['shapes']:
        shape = rng.choice(['zero_rows', 'one_row', 'all_missing', 'all_empty',
                            'zero_rows', 'one_row'])
        if shape == 'zero_rows':
            n = 0
        elif shape == 'one_row':
            n = 1
    scheme = rng.choice([('k', 'v', 's'), ('id', 'val', 'str'),
                         ('k', 'v', 's')])
    keytype = rng.choice(['int', 'int', 'str'])
    x = rng.random()
    if x < prof['str_dtype'] * 0.7:
        str_dt = 'str'
    elif x < prof['str_dtype']:
        str_dt = 'string'          # nullable string dtype (pd.NA)
    else:
        str_dt = 'object'
    cols = [scheme[0], scheme[1], scheme[2]]
    dtypes = {scheme[0]: 'int64' if keytype == 'int' else
              (str_dt if rng.random() < 0.5 else 'object'),
              scheme[1]: str_dt, scheme[2]: str_dt}
    extras = []
    cols.append('num')
    dtypes['num'] = 'int64'
    extras.append('num')
    k2 = None
    if rng.random() < 0.3:
        # a second column that is a key as well (unique, no missing values)
        k2 = 'code'
        cols.append(k2)
        dtypes[k2] = rng.choice(['int64', 'object'])
        extras.append(k2)
    if rng.random() < prof['extras']:
        for cname, dt in (('f', 'float64'), ('b', 'bool'), ('d', 'datetime'),
                          ('o', 'object')):
            if rng.random() < 0.45:
                cols.append(cname)
                dtypes[cname] = dt
                extras.append(cname)
    order = list(cols)
    if rng.random() < 0.6:
        rng.shuffle(order)
    if keytype == 'int' and rng.random() < 0.08:
        # integer keys beyond 2**53: neighbours collide when cast to float
        keys = [2 ** 53 + i for i in rng.sample(range(1, max(60, 3 * n + 5)),
                                                n)]
    elif keytype == 'int':
        keys = rng.sample(range(0, max(60, 3 * n + 5)), n)
    elif rng.random() < 0.2:
        # strings that look like numbers ('007'): must come back as they are
        keys = ['%03d' % i for i in rng.sample(range(0, max(60, 3 * n + 5)),
                                               n)]
    else:
        keys = ['%s%d' % (rng.choice(['a', 'b', 'x']), i)
                for i in rng.sample(range(0, max(60, 3 * n + 5)), n)]
    pm, pe = prof['p_missing'], prof['p_empty']
    if rng.random() < 0.3:
        pm = 0.0
    if rng.random() < 0.3:
        pe = 0.0
    fvals = [0.5, 1.0, -2.25, 3.0, 1e-3]
    if prof.get('convert_numeric') and 'f' in dtypes and             rng.random() < 0.4:
        # a float column of integral values (ids read from a file with gaps)
        fvals = [1.0, 3.0, 7.0, 12.0, -2.0]
    rows = []
    for i in range(n):
        row = {}
        row[scheme[0]] = keys[i]
        for which, col in (('v', scheme[1]), ('s', scheme[2])):
            x = rng.random()
            if shape == 'all_missing' or x < pm:
                row[col] = None
            elif shape == 'all_empty' or x < pm + pe:
                row[col] = rng.choice(['', '', ' ', '  ']) if which == 'v' \
                    else rng.choice(['', '', 'a', ''])
            elif which == 'v':
                base = rng.choice(g.bases)
                if rng.random() < 0.25:
                    base = [zipf_pick(rng, g.alphabet, g.skew)
                            for _ in range(rng.randint(1, g.maxtok))]
                row[col] = join_tokens(rng, perturb_tokens(
                    rng, base, g.alphabet, g.skew), g.seps)
            else:
                base = rng.choice(g.sbases)
                if rng.random() < 0.2:
                    base = ''.join(rng.choice(g.chars)
                                   for _ in range(rng.randint(0, 9)))
                row[col] = perturb_string(rng, base, g.chars)
        row['num'] = rng.randint(-5, 50)
        if k2:
            row[k2] = (1000 + 7 * i) if dtypes[k2] == 'int64' else \
                'c%03d' % (5 * i + 1)
        if 'f' in dtypes:
            row['f'] = None if rng.random() < 0.2 else \
                rng.choice(fvals)
        if 'b' in dtypes:
            row['b'] = rng.random() < 0.5
        if 'd' in dtypes:
            row['d'] = '2020-01-%02d' % rng.randint(1, 28)
        if 'o' in dtypes:
            row['o'] = rng.choice([None, 'x', 'y z', 3, 2.5])
        rows.append(row)
    x = rng.random()
    if x < 0.4:
        index = list(range(n))
    elif x < 0.6:
        index = rng.sample(range(100), n)
    elif x < 0.8:
        index = ['r%d' % i for i in rng.sample(range(100), n)]
    else:
        index = [rng.choice([0, 1, 2, 'a']) for _ in range(n)]
    spec = {'columns': order, 'dtypes': dtypes, 'index': index,
            'rows': [[r[c] for c in order] for r in rows],
            'na_kind': rng.choice(['nan', 'none'])}
    g.case['tables'][name] = spec
    meta = {'name': name, 'key': scheme[0], 'v': scheme[1], 's': scheme[2],
            'keytype': keytype, 'extras': extras, 'n': n, 'cols': order,
            'str_dt': str_dt, 'key2': k2,
            'key2type': ('int' if k2 and dtypes[k2] == 'int64' else 'str')}
    g.tables.append(meta)
    return meta


def add_rows(g, meta, values, col):
    """Append rows (for tight-pair scenarios) carrying `values` in column col
    ('v' or 's') of the (possibly viewed) table; other cells filled in.
    Returns the values of the view's key column for the new rows."""
    rng = g.rng
    base = meta.get('_base', meta)
    spec = g.case['tables'][base['name']]
    cols = spec['columns']
    kcol = base['key']
    used = set(r[cols.index(kcol)] for r in spec['rows'])
    used2 = set(r[cols.index('code')] for r in spec['rows']) \
        if 'code' in cols else set()
    new_keys = []
    for val in values:
        if base['keytype'] == 'int':
            k = max([u for u in used] + [0]) + rng.randint(1, 3)
        else:
            k = 'z%d' % (len(used) + rng.randint(100, 999))
            while k in used:
                k = k + 'z'
        used.add(k)
        row = []
        for c in cols:
            if c == kcol:
                row.append(k)
            elif c == meta[col]:
                row.append(val)
            elif c in (base['v'], base['s']):
                row.append(rng.choice(['', 'a', None]) if rng.random() < 0.5
                           else 'ab')
            elif c == 'num':
                row.append(rng.randint(0, 9))
            elif c == 'code':
                if spec['dtypes'][c] == 'int64':
                    c2 = max([u for u in used2] + [5000]) + 11
                else:
                    c2 = 'cz%04d' % (len(used2) + 1)
                    while c2 in used2:
                        c2 += 'z'
                used2.add(c2)
                row.append(c2)
            elif c == 'f':
                row.append(0.5)
            elif c == 'b':
                row.append(True)
            elif c == 'd':
                row.append('2020-02-02')
            else:
                row.append('x')
        new_keys.append(row[cols.index(meta['key'])])
        pos = rng.randint(0, len(spec['rows']))
        spec['rows'].insert(pos, row)
        idx = spec['index']
        if idx is not None:
            lab = rng.choice([len(idx) + 200, 'n%d' % len(idx)]) \
                if any(isinstance(i, str) for i in idx) else len(idx) + 200
            idx.insert(pos, lab)
    base['n'] = len(spec['rows'])
    meta['n'] = base['n']
    return new_keys


# ---------------------------------------------------------------------------
# tight pairs
# ---------------------------------------------------------------------------

def sim_exact(measure, o, a, b):
    if measure == 'JACCARD':
        return Fraction(o, a + b - o)
    if measure == 'DICE':
        return Fraction(2 * o, a + b)
    if measure == 'OVERLAP_COEFFICIENT':
        return Fraction(o, min(a, b))
    if measure == 'OVERLAP':
        return Fraction(o)
    return None


def qualifies(measure, o, a, b, t):
    if measure == 'COSINE':
        return Fraction(o * o) >= Fraction(t) ** 2 * a * b
    return sim_exact(measure, o, a, b) >= Fraction(t)


def tight_scenario(g, lmeta, rmeta, measure, threshold):
    """Plant a pair whose overlap is the smallest that still satisfies the
    threshold (and one that just fails), with the shared tokens laid out as the
    most frequent, the rarest or random tokens.  Returns possibly adjusted
    threshold."""
    rng = g.rng
    if lmeta.get('keyjoin') or rmeta.get('keyjoin'):
        return threshold      # nothing can be planted in a key column
    maxn = max(6, min(80, g.maxtok * 2))
    t = threshold
    a = b = None
    if measure in ('JACCARD', 'COSINE', 'DICE') and \
            rng.random() < g.prof['treacherous']:
        tp = treacherous_pair(rng, measure, maxn if rng.random() < 0.5 else 80)
        if tp:
            t, a, m = tp
            b = m if rng.random() < 0.7 else None
    if a is None:
        a = rng.randint(1, maxn)
    tf = Fraction(t).limit_denominator(10000) if measure != 'OVERLAP' else \
        Fraction(int(t))
    if b is None:
        b = rng.randint(1, maxn)
    # smallest qualifying overlap
    o = None
    for cand in range(0, min(a, b) + 1):
        if cand > 0 and qualifies(measure, cand, a, b, tf):
            o = cand
            break
    if o is None:
        # not reachable with these sizes: make y a subset / equal set
        b = a
        o = a
    layout = rng.choice(['frequent', 'rare', 'random', 'frequent'])
    fresh = rng.random() < 0.6
    if fresh:
        alpha = ['z%02d' % i for i in range(a + b)]
    else:
        alpha = list(g.alphabet)
        while len(alpha) < a + b:
            alpha.append('y%02d' % len(alpha))
        rng.shuffle(alpha)
    shared = alpha[:o]
    xs = shared + alpha[o:a]
    ys = shared + alpha[a:a + b - o]
    fillers = []
    if layout == 'frequent':
        for _ in range(rng.randint(0, 2)):
            fillers.append(list(shared))
    elif layout == 'rare':
        rest = [tk for tk in xs + ys if tk not in shared]
        for _ in range(rng.randint(1, 3)):
            fillers.append(list(rest))
    lvals, rvals = [], []
    xv = list(xs)
    yv = list(ys)
    rng.shuffle(xv)
    rng.shuffle(yv)
    lvals.append(join_tokens(rng, xv, [' ']))
    rvals.append(join_tokens(rng, yv, [' ']))
    if o >= 1 and rng.random() < 0.6:
        # the pair that just fails: one shared token fewer
        y2 = shared[1:] + alpha[a:a + b - o] + ['w%02d' % rng.randint(0, 9)]
        rng.shuffle(y2)
        rvals.append(join_tokens(rng, y2, [' ']))
    for f in fillers:
        rng.shuffle(f)
        (lvals if rng.random() < 0.5 else rvals).append(
            join_tokens(rng, f, [' ']))
    if rng.random() < 0.5:
        lvals, rvals = rvals, lvals
    lk = add_rows(g, lmeta, lvals, 'v')
    # (same table on both sides: the right view may look at it through another
    # key column / attribute; add_rows follows the view it is given)
    rk = add_rows(g, rmeta, rvals, 'v')
    # the boundary pair itself (first value on each side)
    g.last_tight = {'lkey': lk[0], 'rkey': rk[0], 'ls': lvals[0],
                    'rs': rvals[0]}
    return t


# ---------------------------------------------------------------------------
# plans, faults, variants
# ---------------------------------------------------------------------------

def gen_n_jobs(g, rows, multi=None):
    rng = g.rng
    multi = g.prof['jobs_multi'] if multi is None else multi
    if rng.random() >= multi:
        return rng.choice([1, 1, 1, -g.cpus - rng.randint(0, 2)])
    return rng.choice([2, 2, 3, 3, 4, 5, 8, max(rows, 2), rows + 1,
                       rows + rng.randint(2, 3), -1, -2])


def gen_plan(g):
    rng, prof = g.rng, g.prof
    x = rng.random()
    if x < prof['threads']:
        mode = 'threads'
    elif x < prof['threads'] + prof['process']:
        mode = 'process'
    else:
        mode = 'inline'
    plan = {'mode': mode,
            'order_seed': None if rng.random() < 0.3 else
            rng.randint(0, 10 ** 6)}
    if mode == 'process':
        # loky keeps its worker processes between calls (their module state
        # persists); sometimes a worker is freshly started instead
        plan['reuse_workers'] = rng.random() < 0.7
        if rng.random() < prof.get('hashproc', 0.0):
            # real child interpreters whose string-hash seed differs from the
            # coordinator's (what loky workers are unless PYTHONHASHSEED is
            # pinned for the whole process tree)
            plan['mode'] = 'hashproc'
            plan['hash_seed'] = rng.randint(1, 10 ** 6)
    if mode == 'threads':
        plan['preempt_seed'] = rng.randint(0, 10 ** 6)
        plan['switch_p'] = rng.choice([0.05, 0.3, 0.3, 1.0])
        if rng.random() < 0.25:
            # finer interleaving: hand-overs at library source lines
            plan['line_p'] = rng.choice([0.005, 0.02, 0.1])
    return plan


DEFAULT_FAULTS = {'tok_raise': 0.5, 'worker_crash': 0.3, 'sim_raise': 0.2}


def gen_fault(g, op, force=False):
    rng, prof = g.rng, g.prof
    if not force and (not prof['faults'] or rng.random() >= prof['p_fault']):
        return None
    kinds = list((prof['faults'] or DEFAULT_FAULTS).items())
    tot = sum(w for _, w in kinds)
    x = rng.random() * tot
    kind = kinds[-1][0]
    for k, w in kinds:
        x -= w
        if x < 0:
            kind = k
            break
    if kind == 'sim_raise' and op['op'] != 'apply_matcher':
        kind = 'tok_raise'
    if op['op'] in ('filter_pair', 'profile', 'convert'):
        if kind == 'worker_crash':
            kind = 'tok_raise'
    if op['op'] in ('profile', 'convert'):
        return None
    f = {'kind': kind, 'frac': round(rng.random(), 4)}
    if kind == 'worker_crash':
        f['fanout'] = 0
    return f


def gen_variants(g, op, lmeta, rmeta):
    rng, prof = g.rng, g.prof
    out = []
    for what, w in prof['variants'].items():
        reps = int(w) + (1 if rng.random() < (w - int(w)) else 0)
        for _ in range(reps):
            v = {'what': what}
            if what == 'copy_right':
                # the same DataFrame used as left and right table vs an equal
                # copy of it as the right table
                if lmeta is not None and rmeta is not None and \
                        lmeta['name'] == rmeta['name']:
                    out.append(v)
                continue
            if what == 'drop_missing':
                out.append(v)
                continue
            if what == 'n_jobs':
                rows = rmeta['n'] if rmeta else 4
                v['n_jobs'] = gen_n_jobs(g, rows, multi=0.9)
                v['cpus'] = rng.choice([1, 2, 3, 4, 8, 16])
                v['plan'] = gen_plan(g)
            elif what == 'permute':
                if lmeta is None:
                    continue
                which = rng.choice(['l', 'r', 'both'])
                if which in ('l', 'both'):
                    v['l_perm'] = rng.sample(range(lmeta['n']), lmeta['n'])
                if which in ('r', 'both') and rmeta['name'] != lmeta['name']:
                    v['r_perm'] = rng.sample(range(rmeta['n']), rmeta['n'])
                if 'l_perm' not in v and 'r_perm' not in v:
                    v['l_perm'] = rng.sample(range(lmeta['n']), lmeta['n'])
            elif what == 'relabel':
                if lmeta is None:
                    continue
                for side, m in (('l', lmeta), ('r', rmeta)):
                    if rng.random() < 0.7:
                        kind = rng.random()
                        if kind < 0.4:
                            lab = rng.sample(range(1000), m['n'])
                        elif kind < 0.7:
                            lab = ['L%d' % i for i in range(m['n'])]
                        else:
                            lab = [rng.choice([7, 7, 8]) for _ in range(m['n'])]
                        v[side + '_index'] = lab
            elif what == 'addcols':
                if lmeta is None:
                    continue
                for side, m in (('l', lmeta), ('r', rmeta)):
                    if side == 'r' and rmeta['name'] == lmeta['name']:
                        continue
                    if rng.random() < 0.7:
                        v[side + '_extra'] = [
                            ['zz_extra', 'int64',
                             [rng.randint(0, 9) for _ in range(m['n'])]],
                            ['aa_extra', 'object',
                             [rng.choice(['p', None, 'q r'])
                              for _ in range(m['n'])]]]
                    if rng.random() < 0.6:
                        order = list(g.case['tables'][m['name']]['columns'])
                        rng.shuffle(order)
                        v[side + '_order'] = order
            out.append(v)
    return out


# ---------------------------------------------------------------------------
# ops
# ---------------------------------------------------------------------------

def table_view(g, base, same_as=None):
    """How an op looks at a table: normally as generated; sometimes through
    its second key column, and - when the same DataFrame is used as left and
    right table - with the other string column as the attribute."""
    rng = g.rng
    v = dict(base)
    v['_base'] = base
    if base.get('key2') and rng.random() < (0.45 if same_as is not None
                                            else 0.1):
        v['key'] = base['key2']
        v['keytype'] = base['key2type']
    if same_as is not None and rng.random() < 0.3:
        v['v'], v['s'] = base['s'], base['v']
    if v['keytype'] == 'str' and rng.random() < 0.06:
        # a unique string column that serves as key *and* as join attribute
        # (on this side only, usually): the projected table then has one
        # column where it normally has two
        v['v'] = v['s'] = v['key']
        v['keyjoin'] = True
    return v


def pick_tables(g):
    rng = g.rng
    l = rng.choice(g.tables)
    r = rng.choice(g.tables)
    if len(g.tables) >= 2 and rng.random() < 0.85:
        while r['name'] == l['name']:
            r = rng.choice(g.tables)
    if r['name'] == l['name']:
        return table_view(g, l), table_view(g, l, same_as=l)
    return table_view(g, l), table_view(g, r)


def pick_tok(g, want=None, mode=None):
    """want: 'qgram' | 'word' | None; mode: required return_set or None."""
    rng = g.rng
    cands = []
    for name, spec in g.toks:
        if want == 'qgram' and spec['kind'] != 'qgram':
            continue
        if want == 'word' and spec['kind'] == 'qgram':
            continue
        if mode is not None and bool(spec['return_set']) != mode:
            continue
        cands.append((name, spec))
    if not cands:
        # make one
        name = 'K%d' % len(g.toks)
        if want == 'qgram':
            spec = {'kind': 'qgram', 'qval': rng.choice([2, 3]),
                    'padding': rng.random() < 0.6,
                    'return_set': bool(mode) if mode is not None else False}
        else:
            spec = {'kind': rng.choice(['ws', 'alnum']),
                    'return_set': bool(mode) if mode is not None else
                    rng.random() < 0.5}
        g.case['tokenizers'][name] = spec
        g.toks.append((name, spec))
        return name, spec
    return rng.choice(cands)


def out_attrs(g, meta, attr):
    rng = g.rng
    if rng.random() >= g.prof['outs']:
        return None
    x = rng.random()
    if x < 0.1:
        return []
    pool = list(meta['cols'])
    k = rng.randint(1, min(4, len(pool)))
    sel = rng.sample(pool, k)
    if rng.random() < 0.3:
        sel.append(meta['key'])
    if rng.random() < 0.3:
        sel.append(attr)
    if rng.random() < 0.25 and sel:
        sel.append(rng.choice(sel))
    if rng.random() < 0.5:
        rng.shuffle(sel)
    return sel


def maybe_same_out(g, op, l, r):
    """One list object passed for both l_out_attrs and r_out_attrs (a caller
    who wants the same attributes from both tables)."""
    rng = g.rng
    if rng.random() >= 0.2:
        return
    common_cols = [c for c in l['cols'] if c in r['cols']]
    if not common_cols:
        return
    sel = rng.sample(common_cols, rng.randint(1, min(3, len(common_cols))))
    for kname, other in ((l['key'], r), (r['key'], l)):
        # a key of one table that is an ordinary column of the other
        if kname in other['cols'] and kname != other['key'] and \
                kname not in sel and rng.random() < 0.7:
            sel.insert(rng.randint(0, len(sel)), kname)
    if rng.random() < 0.3:
        sel.append(rng.choice(sel))
    op['l_out'] = list(sel)
    op['r_out'] = list(sel)
    op['same_out_object'] = True


def prefixes(g):
    rng = g.rng
    x = rng.random()
    if x < 0.6:
        return {}
    if x < 0.8:
        return {'l_prefix': 'left_', 'r_prefix': 'right_'}
    if x < 0.9:
        return {'l_prefix': 'L.', 'r_prefix': 'R.'}
    return {'l_prefix': '', 'r_prefix': 'r_'}


def common(g, op, l, r, attr_l, attr_r, rows_for_jobs):
    rng = g.rng
    op['n_jobs'] = gen_n_jobs(g, rows_for_jobs)
    op['show_progress'] = rng.random() < 0.15
    op['plan'] = gen_plan(g)
    if rng.random() < g.prof['twin']:
        op['twin'] = True
    f = gen_fault(g, op)
    if f:
        op['fault'] = f
    else:
        vs = gen_variants(g, op, l, r)
        if vs:
            op['variants'] = vs


def gen_join(g):
    rng, prof = g.rng, g.prof
    measure = rng.choice(prof['measures'])
    l, r = pick_tables(g)
    op = {'op': 'join', 'measure': measure, 'l': l['name'], 'r': r['name'],
          'l_key': l['key'], 'r_key': r['key']}
    if measure == 'EDIT_DISTANCE':
        if rng.random() < 0.3:
            op['tok'] = rng.choice(['DEFAULT', 'DEFAULT_OMITTED'])
        else:
            op['tok'] = pick_tok(g, 'qgram')[0]
        op['l_attr'], op['r_attr'] = l['s'], r['s']
        op['comp_op'] = rng.choice(['<=', '<=', '<=', '<', '='])
    else:
        x = rng.random()
        name, spec = pick_tok(g, 'word' if x >= prof['qgram_pref']
                              else 'qgram')
        op['tok'] = name
        if spec['kind'] == 'qgram':
            op['l_attr'], op['r_attr'] = l['s'], r['s']
        else:
            op['l_attr'], op['r_attr'] = l['v'], r['v']
        op['comp_op'] = rng.choice(['>=', '>=', '>=', '>', '='])
        if measure != 'OVERLAP':
            op['allow_empty'] = rng.random() < 0.6
    t = gen_threshold(rng, measure, prof,
                      fine=op.get('comp_op') in ('>', '='))
    if measure not in ('EDIT_DISTANCE',) and \
            g.case['tokenizers'][op['tok']]['kind'] != 'qgram' and \
            rng.random() < prof['tight'] and \
            measure in ('JACCARD', 'COSINE', 'DICE', 'OVERLAP',
                        'OVERLAP_COEFFICIENT'):
        t = tight_scenario(g, l, r, measure, t)
        if measure == 'OVERLAP':
            t = int(t)
    if measure == 'EDIT_DISTANCE' and rng.random() < 0.3:
        ed_tight_scenario(g, l, r, t)
    if op.get('comp_op') == '=' and measure not in ('EDIT_DISTANCE',
                                                    'OVERLAP'):
        t = rng.choice([0.5, 1.0, 0.25, 0.75, 0.2, 0.4, 0.6, 0.8, t])
    op['threshold'] = t
    am = prof.get('allow_missing', 0.3)
    op['allow_missing'] = rng.random() < am
    lo, ro = out_attrs(g, l, op['l_attr']), out_attrs(g, r, op['r_attr'])
    if lo is not None or rng.random() < 0.5:
        op['l_out'] = lo
    if ro is not None or rng.random() < 0.5:
        op['r_out'] = ro
    maybe_same_out(g, op, l, r)
    op.update(prefixes(g))
    op['score'] = rng.random() < 0.75
    common(g, op, l, r, op['l_attr'], op['r_attr'], r['n'])
    return op


def gen_filter_spec(g, kind=None, measure=None, judged=True):
    rng, prof = g.rng, g.prof
    kind = kind or rng.choice(SAFE_FILTERS + ['OverlapFilter'])
    spec = {'kind': kind}
    wrong = (not judged) or rng.random() < prof['wrong_mode_filters']
    if kind == 'OverlapFilter':
        name, tspec = pick_tok(g, 'word' if rng.random() >= prof['qgram_pref'] else
                               'qgram',
                               None if wrong else True)
        spec.update(tokenizer=name, threshold=rng.choice([1, 1, 2, 3, 4]),
                    comp_op=rng.choice(['>=', '>=', '>', '=']),
                    allow_missing=rng.random() < prof.get('allow_missing', 0.3))
        return spec
    measure = measure or rng.choice(FILTER_MEASURES)
    if measure == 'EDIT_DISTANCE':
        name, tspec = pick_tok(g, 'qgram', None if wrong else False)
        thr = rng.choice([0, 1, 1, 2, 2, 3])
    else:
        name, tspec = pick_tok(g, 'word' if rng.random() >= prof['qgram_pref'] else
                               'qgram',
                               None if wrong else True)
        thr = gen_threshold(rng, measure, prof)
    spec.update(tokenizer=name, measure=measure, threshold=thr,
                allow_empty=rng.random() < 0.6,
                allow_missing=rng.random() < prof.get('allow_missing', 0.3))
    if rng.random() < 0.1:
        spec['measure'] = measure.lower()   # documented: case-insensitive
    return spec


def get_filter(g, kind=None, measure=None):
    rng = g.rng
    if g.filters and rng.random() < 0.4:
        cands = [(n, s) for n, s in g.filters
                 if (kind is None or s['kind'] == kind)]
        if cands:
            return rng.choice(cands)
    spec = gen_filter_spec(g, kind, measure)
    name = 'F%d' % len(g.filters)
    g.case['filters'][name] = spec
    g.filters.append((name, spec))
    return name, spec


def attrs_for_tok(g, tokname, l, r):
    spec = g.case['tokenizers'][tokname]
    if spec['kind'] == 'qgram':
        return l['s'], r['s']
    return l['v'], r['v']


def ed_tight_scenario(g, lmeta, rmeta, threshold):
    """Plant string pairs whose edit distance is at (or just above) the
    threshold, built from strings with runs of one character (repeated
    q-grams): the boundary cases of the edit-distance bounds."""
    rng = g.rng
    if lmeta.get('keyjoin') or rmeta.get('keyjoin'):
        return None
    chars = g.chars if len(g.chars) >= 2 else 'ab'
    t = int(threshold)

    def runs():
        out = []
        for _ in range(rng.randint(1, 3)):
            out.append(rng.choice(chars) * rng.randint(1, 4))
        return ''.join(out)

    def edit(s, k):
        s = list(s)
        for _ in range(k):
            x = rng.random()
            pos = rng.choice([0, len(s)]) if rng.random() < 0.5 else \
                rng.randint(0, len(s))
            if x < 0.5 or not s:
                s.insert(pos, rng.choice(chars))
            elif x < 0.8:
                s[min(pos, len(s) - 1)] = rng.choice(chars)
            else:
                s.pop(min(pos, len(s) - 1))
        return ''.join(s)

    lvals, rvals = [], []
    for _ in range(rng.randint(1, 3)):
        x = runs()
        lvals.append(x)
        rvals.append(edit(x, t))
        if rng.random() < 0.5:
            rvals.append(edit(x, t + 1))
    if rng.random() < 0.5:
        lvals, rvals = rvals, lvals
    lk = add_rows(g, lmeta, lvals, 's')
    rk = add_rows(g, rmeta, rvals, 's')
    g.last_tight = {'lkey': lk[0], 'rkey': rk[0], 'ls': lvals[0],
                    'rs': rvals[0]}
    return g.last_tight


def maybe_tight_filter(g, fspec, l, r):
    """Plant a boundary pair for this (fresh) filter.  Returns the planted
    pair or None."""
    rng = g.rng
    if l.get('keyjoin') or r.get('keyjoin'):
        return None
    m = fspec.get('measure', 'OVERLAP').upper()
    if fspec['kind'] != 'OverlapFilter' and m in ('JACCARD', 'COSINE', 'DICE',
                                                  'OVERLAP') and \
            g.case['tokenizers'][fspec['tokenizer']]['kind'] != 'qgram' and \
            rng.random() < g.prof['tight'] and not fspec.get('_used'):
        g.last_tight = None
        t = tight_scenario(g, l, r, m, fspec['threshold'])
        fspec['threshold'] = int(t) if m == 'OVERLAP' else t
        return g.last_tight
    if fspec['kind'] != 'OverlapFilter' and m == 'EDIT_DISTANCE' and \
            g.case['tokenizers'][fspec['tokenizer']]['kind'] == 'qgram' and \
            rng.random() < max(g.prof['tight'], 0.3) and \
            not fspec.get('_used'):
        return ed_tight_scenario(g, l, r, fspec['threshold'])
    return None


def gen_filter_tables(g, kind=None):
    rng = g.rng
    fname, fspec = get_filter(g, kind)
    l, r = pick_tables(g)
    la, ra = attrs_for_tok(g, fspec['tokenizer'], l, r)
    op = {'op': 'filter_tables', 'filter': fname, 'l': l['name'],
          'r': r['name'], 'l_key': l['key'], 'r_key': r['key'],
          'l_attr': la, 'r_attr': ra}
    maybe_tight_filter(g, fspec, l, r)
    fspec['_used'] = True
    lo, ro = out_attrs(g, l, la), out_attrs(g, r, ra)
    if lo is not None or rng.random() < 0.5:
        op['l_out'] = lo
    if ro is not None or rng.random() < 0.5:
        op['r_out'] = ro
    maybe_same_out(g, op, l, r)
    op.update(prefixes(g))
    if fspec['kind'] == 'OverlapFilter':
        op['score'] = rng.random() < 0.6
    common(g, op, l, r, la, ra, r['n'])
    return op


def gen_candset_spec(g, l, r, c_l, c_r, size_hint=None):
    rng = g.rng
    lspec, rspec = g.case['tables'][l['name']], g.case['tables'][r['name']]
    lk = [row[lspec['columns'].index(l['key'])] for row in lspec['rows']]
    rk = [row[rspec['columns'].index(r['key'])] for row in rspec['rows']]
    cross = [(a, b) for a in lk for b in rk]
    if not cross:
        pairs = []
    else:
        x = rng.random()
        if x < 0.15:
            n = rng.randint(0, 2)
        elif x < 0.5:
            n = rng.randint(1, max(1, (len(lk) + len(rk)) // 2))
        else:
            n = rng.randint((len(lk) + len(rk)) // 2, len(cross))
        n = min(n, len(cross))
        pairs = rng.sample(cross, n)
        if pairs and rng.random() < 0.2:
            pairs.append(rng.choice(pairs))      # a repeated candidate row
    n = len(pairs)
    spec = {'l_col': c_l, 'r_col': c_r, 'pairs': [list(p) for p in pairs],
            'ids': rng.sample(range(0, 5 * n + 10), n)}
    x = rng.random()
    if x < 0.4:
        spec['index'] = list(range(n))
    elif x < 0.7:
        spec['index'] = rng.sample(range(max(1000, 2 * n)), n)
    else:
        spec['index'] = ['c%d' % rng.randint(0, 5) for _ in range(n)]
    x = rng.random()
    if x < 0.25:
        spec['extra'] = {'note': [rng.choice(['p', 'q', None])
                                  for _ in range(n)]}
    elif x < 0.5:
        # an all-numeric candidate set with a float column (what a filter
        # with a score column returns)
        spec['extra'] = {'_sim_score': [rng.choice([0.5, 1.0, 0.25])
                                        for _ in range(n)]}
    for side, m, col in (('l', l, 'l_dtype'), ('r', r, 'r_dtype')):
        if m['keytype'] == 'int':
            spec[col] = 'int64'
        else:
            spec[col] = rng.choice(['object', 'str'])
    if rng.random() < 0.1:
        spec['no_id'] = True      # a hand-made candidate set without _id
    name = 'S%d' % len(g.candsets)
    g.case['candsets'][name] = spec
    g.candsets.append(name)
    return name, n


def gen_filter_candset(g, kind=None):
    rng = g.rng
    fname, fspec = get_filter(g, kind)
    op = {'op': 'filter_candset', 'filter': fname}
    chained = None
    if g.prof.get('chain_candsets') and g.results_candsets and \
            rng.random() < g.prof['chain_candsets']:
        chained = rng.choice(g.results_candsets)
    if chained:
        ci, l, r, lp, rp = chained
        op['candset'] = 'result_of:%d' % ci
        op['c_l'], op['c_r'] = lp + l['key'], rp + r['key']
        n = 4
    else:
        l, r = pick_tables(g)
        c_l, c_r = rng.choice([('l_' + l['key'], 'r_' + r['key']),
                               ('lid', 'rid')])
        planted = maybe_tight_filter(g, fspec, l, r)
        name, n = gen_candset_spec(g, l, r, c_l, c_r)
        if planted:
            cs = g.case['candsets'][name]
            pr = [planted['lkey'], planted['rkey']]
            if pr not in cs['pairs']:
                if cs['pairs']:
                    cs['pairs'][rng.randrange(len(cs['pairs']))] = pr
                else:
                    cs['pairs'].append(pr)
                    cs['ids'].append(0)
                    cs['index'].append(0 if not cs['index'] or
                                       isinstance(cs['index'][0], int)
                                       else 'c0')
                    for k2 in (cs.get('extra') or {}):
                        cs['extra'][k2].append(None)
                    n = len(cs['pairs'])
        op['candset'] = name
        op['c_l'], op['c_r'] = c_l, c_r
    la, ra = attrs_for_tok(g, fspec['tokenizer'], l, r)
    op.update({'l': l['name'], 'r': r['name'], 'l_key': l['key'],
               'r_key': r['key'], 'l_attr': la, 'r_attr': ra})
    fspec['_used'] = True
    common(g, op, l, r, la, ra, n)
    return op


def gen_bag_overlap_pair(g):
    """OverlapFilter.filter_pair with a *bag* tokenizer on strings with
    repeated tokens, the overlap size placed between the number of distinct
    shared tokens and the count with multiplicity: filter_pair's overlap is the
    number of distinct shared tokens (utils.simfunctions.overlap turns lists
    into sets)."""
    rng = g.rng
    name, tspec = pick_tok(g, 'word', False)
    sep = ' '
    if tspec['kind'] == 'delim':
        sep = tspec['delims'][0]
    k = rng.randint(1, 4)
    toks = list(dict.fromkeys(zipf_pick(rng, g.alphabet, g.skew)
                              for _ in range(k + 3)))[:k] or ['a']
    lt = list(toks)
    for _ in range(rng.randint(1, 3)):
        lt.insert(rng.randint(0, len(lt)), rng.choice(toks))
    x = rng.random()
    if x < 0.4:
        rt = list(lt)                           # the very same string
    else:
        rt = [rng.choice(toks) for _ in range(rng.randint(1, 3))]
        rt += [rt[0]] * rng.randint(1, 2)       # a shared token, repeated
        if rng.random() < 0.5:
            rt.append('zq')
        rng.shuffle(rt)
    o = len(set(lt) & set(rt))
    spec = {'kind': 'OverlapFilter', 'tokenizer': name,
            'threshold': max(1, o + rng.choice([0, 1, 1, 2])),
            'comp_op': rng.choice(['>=', '>=', '>', '=']),
            'allow_missing': rng.random() < 0.3, '_used': True}
    fname = 'F%d' % len(g.filters)
    g.case['filters'][fname] = spec
    g.filters.append((fname, spec))
    l, r = pick_tables(g)
    ls, rs = sep.join(lt), sep.join(rt)
    if rng.random() < 0.5:
        ls, rs = rs, ls
    op = {'op': 'filter_pair', 'filter': fname, 'ls': ls, 'rs': rs,
          'l': l['name'], 'r': r['name']}
    if rng.random() < g.prof['twin']:
        op['twin'] = True
    return op


def gen_filter_pair(g, kind=None):
    rng = g.rng
    if kind == 'OverlapFilter' and rng.random() < 0.3:
        return gen_bag_overlap_pair(g)
    fname, fspec = get_filter(g, kind)
    l, r = pick_tables(g)
    la, ra = attrs_for_tok(g, fspec['tokenizer'], l, r)
    lspec, rspec = g.case['tables'][l['name']], g.case['tables'][r['name']]
    planted = maybe_tight_filter(g, fspec, l, r)
    lv = [row[lspec['columns'].index(la)] for row in lspec['rows']] or ['']
    rv = [row[rspec['columns'].index(ra)] for row in rspec['rows']] or ['']
    fspec['_used'] = True
    op = {'op': 'filter_pair', 'filter': fname, 'ls': rng.choice(lv),
          'rs': rng.choice(rv), 'l': l['name'], 'r': r['name']}
    if planted:
        op['ls'], op['rs'] = planted['ls'], planted['rs']
    if rng.random() < g.prof['twin']:
        op['twin'] = True
    return op


def gen_apply_matcher(g):
    rng = g.rng
    op = {'op': 'apply_matcher'}
    chained = None
    if g.prof.get('chain_candsets') and g.results_candsets and \
            rng.random() < g.prof['chain_candsets']:
        chained = rng.choice(g.results_candsets)
    if chained:
        ci, l, r, lp, rp = chained
        op['candset'] = 'result_of:%d' % ci
        op['c_l'], op['c_r'] = lp + l['key'], rp + r['key']
        n = 4
    else:
        l, r = pick_tables(g)
        c_l, c_r = rng.choice([('l_' + l['key'], 'r_' + r['key']),
                               ('lid', 'rid')])
        name, n = gen_candset_spec(g, l, r, c_l, c_r)
        op['candset'] = name
        op['c_l'], op['c_r'] = c_l, c_r
    x = rng.random()
    if x < 0.2:
        tok = None
        measure = rng.choice(['EDIT_DISTANCE', 'EDIT_DISTANCE', 'LEN_DIFF'])
        la, ra = l['s'], r['s']
        thr = rng.choice([0, 1, 2, 3])
        comp = rng.choice(['<=', '<', '=', '!=', '>=', '>'])
    else:
        tok, tspec = pick_tok(g)
        measure = rng.choice(['JACCARD', 'COSINE', 'DICE',
                              'OVERLAP_COEFFICIENT', 'OVERLAP', 'CONTAINMENT'])
        la, ra = attrs_for_tok(g, tok, l, r)
        thr = gen_threshold(rng, measure, g.prof)
        comp = rng.choice(['>=', '>=', '>', '=', '<=', '<', '!='])
    op.update({'l': l['name'], 'r': r['name'], 'l_key': l['key'],
               'r_key': r['key'], 'l_attr': la, 'r_attr': ra, 'tok': tok,
               'sim': {'measure': measure,
                       'form': rng.choice(['plain', 'bound', 'bound_child',
                                           'psm'])},
               'threshold': thr, 'comp_op': comp,
               'allow_missing': rng.random() < g.prof.get('allow_missing',
                                                          0.4)})
    lo, ro = out_attrs(g, l, la), out_attrs(g, r, ra)
    if lo is not None or rng.random() < 0.5:
        op['l_out'] = lo
    if ro is not None or rng.random() < 0.5:
        op['r_out'] = ro
    op.update(prefixes(g))
    op['score'] = rng.random() < 0.8
    common(g, op, l, r, la, ra, n)
    return op


def gen_pipeline(g):
    rng, prof = g.rng, g.prof
    measure = rng.choice(['JACCARD', 'COSINE', 'DICE', 'OVERLAP',
                          'OVERLAP_COEFFICIENT', 'EDIT_DISTANCE',
                          'JACCARD', 'COSINE', 'DICE'])
    l, r = pick_tables(g)
    am = rng.random() < 0.25
    if measure == 'EDIT_DISTANCE':
        tok, tspec = pick_tok(g, 'qgram', False)
        la, ra = l['s'], r['s']
        thr = rng.choice([0, 1, 1, 2, 2, 3])
        comp = rng.choice(['<=', '<=', '<', '='])
        fkind = rng.choice(['SizeFilter', 'PrefixFilter', 'PositionFilter'])
        if rng.random() < max(prof['tight'], 0.3):
            ed_tight_scenario(g, l, r, thr)
        fspec = {'kind': fkind, 'tokenizer': tok, 'measure': 'EDIT_DISTANCE',
                 'threshold': thr, 'allow_empty': True, 'allow_missing': am}
        ae = True
    else:
        tok, tspec = pick_tok(g, 'word' if rng.random() < 0.85 else None, True)
        la, ra = attrs_for_tok(g, tok, l, r)
        thr = gen_threshold(rng, measure, prof)
        comp = rng.choice(['>=', '>=', '>', '='])
        ae = rng.random() < 0.6
        if tspec['kind'] != 'qgram' and rng.random() < prof['tight']:
            thr = tight_scenario(g, l, r, measure, thr)
            if measure == 'OVERLAP':
                thr = int(thr)
        if measure == 'OVERLAP_COEFFICIENT':
            fkind = 'OverlapFilter'
        else:
            fkind = rng.choice(['SizeFilter', 'PrefixFilter', 'PositionFilter',
                                'OverlapFilter'])
        if fkind == 'OverlapFilter':
            fspec = {'kind': fkind, 'tokenizer': tok, 'threshold': 1,
                     'comp_op': '>=', 'allow_missing': am}
        else:
            fspec = {'kind': fkind, 'tokenizer': tok, 'measure': measure,
                     'threshold': thr, 'allow_empty': ae, 'allow_missing': am}
    op = {'op': 'pipeline', 'measure': measure, 'filter_spec': fspec,
          'l': l['name'], 'r': r['name'], 'l_key': l['key'],
          'r_key': r['key'], 'l_attr': la, 'r_attr': ra, 'tok': tok,
          'threshold': thr, 'comp_op': comp, 'allow_empty': ae,
          'allow_missing': am, 'form': rng.choice(['psm', 'plain', 'bound']),
          'n_jobs_f': gen_n_jobs(g, r['n']), 'n_jobs_m': gen_n_jobs(g, 6),
          'n_jobs_j': gen_n_jobs(g, r['n']),
          'plan_f': gen_plan(g), 'plan_m': gen_plan(g), 'plan_j': gen_plan(g)}
    op.update(prefixes(g))
    if op.get('l_prefix') == '' :
        op['l_prefix'] = 'l_'
    return op


def gen_profile(g):
    rng = g.rng
    t = rng.choice([m for m in g.tables if m['n'] > 0] or [None])
    if t is None:
        return None
    op = {'op': 'profile', 't': t['name']}
    if rng.random() < 0.5:
        op['attrs'] = rng.sample(t['cols'], rng.randint(1, len(t['cols'])))
    return op


def gen_convert(g):
    rng = g.rng
    t = rng.choice(g.tables)
    spec = g.case['tables'][t['name']]
    if rng.random() < g.prof.get('convert_numeric', 0.0):
        # numeric columns, in the modes that work on the pinned tree under
        # this pandas: series_to_str and return_col=True always; the default
        # mode (a converted copy of the frame) only for a column without any
        # value (0 rows / all NaN) - for other columns it raises on the pinned
        # tree (DESIGN 6, "noted only")
        num = [c for c in spec['columns']
               if spec['dtypes'][c] in ('int64', 'float64')]
        if num:
            col = rng.choice(num)
            if 'f' in num and rng.random() < 0.5:
                col = 'f'
            ci = spec['columns'].index(col)
            no_value = all(r[ci] is None for r in spec['rows'])
            which = rng.choice(['series', 'frame'])
            rc = True
            if which == 'frame' and no_value and rng.random() < 0.7:
                rc = False
            return {'op': 'convert', 't': t['name'], 'col': col,
                    'which': which, 'return_col': rc, 'numeric': True}
    # string columns are returned unchanged: the part of the converters that
    # works on this pandas (see DESIGN 6, "noted only")
    col = rng.choice([t['v'], t['s']])
    if spec['dtypes'][col] != 'object':
        return None
    return {'op': 'convert', 't': t['name'], 'col': col,
            'which': rng.choice(['series', 'frame']),
            'return_col': rng.random() < 0.5}


def gen_sibling(g, op):
    """A near-duplicate of an earlier call: same entry point and arguments
    with exactly one dimension changed (tokenizer of the same family, q,
    threshold, measure).  Two such calls in one process are what an
    incompletely keyed cache or a stale per-process memo needs."""
    import copy
    rng = g.rng
    kind = op['op']
    if kind not in ('join', 'filter_tables', 'filter_pair', 'filter_candset',
                    'apply_matcher', 'pipeline'):
        return None
    sib = copy.deepcopy(op)
    for k in ('variants', 'fault', 'twin'):
        sib.pop(k, None)
    if g.prof['twin'] and rng.random() < g.prof['twin']:
        sib['twin'] = True
    swappable = (kind != 'filter_pair' and op.get('l') != op.get('r') and
                 not str(op.get('candset', '')).startswith('result_of:'))
    if swappable and (kind in ('apply_matcher', 'pipeline') or
                      rng.random() < (0.65 if kind == 'filter_candset'
                                      else 0.35)):
        # the same call with the two tables exchanged (same plan, so the same
        # simulated workers serve it): what a per-table cache that is
        # invalidated in the coordinator only gets wrong
        for a, b in (('l', 'r'), ('l_key', 'r_key'), ('l_attr', 'r_attr'),
                     ('l_out', 'r_out')):
            va, vb = sib.get(a), sib.get(b)
            for k2, v2 in ((a, vb), (b, va)):
                if v2 is None and k2 in ('l_out', 'r_out'):
                    sib.pop(k2, None)
                elif v2 is not None:
                    sib[k2] = v2
        if 'candset' in sib:
            cs = copy.deepcopy(g.case['candsets'][op['candset']])
            cs['pairs'] = [[b2, a2] for a2, b2 in cs['pairs']]
            cs['l_dtype'], cs['r_dtype'] = cs.get('r_dtype'), cs.get('l_dtype')
            name = 'S%d' % len(g.candsets)
            g.case['candsets'][name] = cs
            g.candsets.append(name)
            sib['candset'] = name
        return sib
    if kind in ('apply_matcher', 'pipeline'):
        return None

    def other_tok(name):
        spec = g.case['tokenizers'].get(name)
        if not isinstance(spec, dict):
            spec = {'kind': 'qgram', 'qval': 2, 'padding': True,
                    'return_set': False}
        if spec['kind'] == 'qgram':
            q = rng.choice([x for x in (1, 2, 3, 4) if x != spec['qval']])
            new = dict(spec, qval=q)
        else:
            cands = [(n, s) for n, s in g.toks
                     if s['kind'] != 'qgram' and n != name and
                     bool(s['return_set']) == bool(spec['return_set'])]
            if cands:
                return rng.choice(cands)[0]
            new = dict(spec, kind=rng.choice(
                [k for k in ('ws', 'alnum', 'delim') if k != spec['kind']]))
            if new['kind'] == 'delim':
                new['delims'] = [',', ' ']
            else:
                new.pop('delims', None)
        nm = 'K%d' % len(g.toks)
        g.case['tokenizers'][nm] = new
        g.toks.append((nm, new))
        return nm

    if kind == 'join':
        what = rng.choice(['tok', 'threshold', 'measure'])
        if what == 'tok':
            sib['tok'] = other_tok('DEFAULT' if str(op['tok']).startswith(
                'DEFAULT') else op['tok'])
        elif what == 'threshold':
            sib['threshold'] = gen_threshold(rng, op['measure'], g.prof)
            if op['measure'] == 'OVERLAP':
                sib['threshold'] = int(sib['threshold'])
        else:
            if op['measure'] in ('JACCARD', 'COSINE', 'DICE'):
                sib['measure'] = rng.choice(
                    [m for m in ('JACCARD', 'COSINE', 'DICE')
                     if m != op['measure']])
            else:
                sib['tok'] = other_tok('DEFAULT' if str(op['tok']).startswith(
                    'DEFAULT') else op['tok'])
        return sib
    fs = dict(g.case['filters'][op['filter']])
    fs.pop('_used', None)
    what = rng.choice(['tok', 'tok', 'threshold'])
    if what == 'tok':
        fs['tokenizer'] = other_tok(fs['tokenizer'])
    else:
        m = str(fs.get('measure', 'OVERLAP')).upper()
        if fs['kind'] == 'OverlapFilter' or m == 'OVERLAP':
            fs['threshold'] = rng.choice([t for t in (1, 2, 3, 4)
                                          if t != fs['threshold']])
        elif m == 'EDIT_DISTANCE':
            fs['threshold'] = rng.choice([t for t in (0, 1, 2, 3)
                                          if t != fs['threshold']])
        else:
            fs['threshold'] = gen_threshold(rng, m, g.prof)
    name = 'F%d' % len(g.filters)
    g.case['filters'][name] = fs
    g.filters.append((name, fs))
    sib['filter'] = name
    return sib


def tok_of_op(g, op):
    k = op.get('op')
    if k in ('join', 'apply_matcher', 'pipeline'):
        t = op.get('tok')
        return t if isinstance(t, str) and not t.startswith('DEFAULT') \
            else None
    if k in ('filter_tables', 'filter_candset', 'filter_pair'):
        return g.case['filters'][op['filter']]['tokenizer']
    return None


def gen_retune(g, prefer=None):
    """The caller reconfigures one of its own tokenizer objects between two
    calls."""
    rng = g.rng
    if not g.toks:
        return None
    i = rng.randrange(len(g.toks))
    if prefer is not None:
        for j, (nm, _) in enumerate(g.toks):
            if nm == prefer:
                i = j
    name, spec = g.toks[i]
    new = dict(spec)
    ch = {}
    if spec['kind'] == 'qgram' and rng.random() < 0.7:
        if rng.random() < 0.7:
            ch['qval'] = rng.choice([q for q in (1, 2, 3, 4)
                                     if q != spec['qval']])
        else:
            ch['padding'] = not spec.get('padding', True)
    elif spec['kind'] == 'delim' and rng.random() < 0.5:
        ch['delims'] = rng.choice([d for d in ([' '], [',', ' '], [','],
                                               [' ', '\t', ','])
                                   if d != spec.get('delims')])
    else:
        ch['return_set'] = not spec['return_set']
    new.update(ch)
    g.toks[i] = (name, new)
    return {'op': 'retune', 'tok': name, 'set': ch}


def gen_edit(g, prev):
    """The caller edits one join-attribute cell of a table an earlier call
    used (a present string is replaced by another present string, often one
    taken from the other table, so that a pair newly qualifies)."""
    rng = g.rng
    case = g.case
    side = rng.choice(['l', 'r'])
    other = 'r' if side == 'l' else 'l'
    if not isinstance(prev.get(side), str) or \
            not isinstance(prev.get(other), str):
        return None
    tname = prev[side]
    spec = case['tables'].get(tname)
    ospec = case['tables'].get(prev[other])
    if spec is None or ospec is None:
        return None
    col, kcol = prev[side + '_attr'], prev[side + '_key']
    if col == kcol:
        return None
    ci, ki = spec['columns'].index(col), spec['columns'].index(kcol)
    rows = [r for r in spec['rows'] if r[ci] is not None]
    if not rows:
        return None
    row = rng.choice(rows)
    oci = ospec['columns'].index(prev[other + '_attr'])
    pool = [r[oci] for r in ospec['rows']
            if isinstance(r[oci], str) and r[oci] != row[ci]]
    if rng.random() < 0.3 or not pool:
        pool = [r[ci] for r in rows if r[ci] != row[ci]]
    if not pool:
        return None
    return {'op': 'edit_table', 't': tname, 'key_col': kcol, 'key': row[ki],
            'col': col, 'value': rng.choice(pool),
            'how': rng.choice(['inplace', 'inplace', 'copy', 'assign'])}


def generate(prop, seed, run, overrides=None):
    rng = random.Random(mix(seed, PROP_NO[prop], run))
    prof = profile(prop)
    if overrides:
        prof.update(overrides)
    g = G(rng, prof, prop)
    case = gen_world(g)
    case['property'] = prop
    case['seed'] = seed
    case['run'] = run
    n_ops = rng.randint(*prof['hist'])
    kinds = list(prof['ops'].items())
    tot = sum(w for _, w in kinds)
    from sim import genreject
    for i in range(n_ops):
        if prof.get('retune') and case['history'] and \
                rng.random() < prof['retune']:
            prev = None
            for o in reversed(case['history']):
                if o['op'] in ('join', 'filter_tables', 'filter_candset',
                               'filter_pair', 'apply_matcher'):
                    prev = o
                    break
            pt = tok_of_op(g, prev) if prev is not None else None
            op = gen_retune(g, pt if rng.random() < 0.8 else None)
            if op:
                case['history'].append(op)
                if prev is not None and op['tok'] == pt and \
                        rng.random() < 0.7:
                    # the same call again, on the same objects, after the
                    # caller's reconfiguration: what a memo keyed by object
                    # identity gets wrong
                    import copy
                    again = copy.deepcopy(prev)
                    for k2 in ('variants', 'fault'):
                        again.pop(k2, None)
                    if 'plan' in again:
                        again['plan'] = gen_plan(g)
                    if 'n_jobs' in again and rng.random() < 0.5:
                        again['n_jobs'] = rng.choice([1, 1, 2, 3])
                    case['history'].append(again)
                    continue
        if prof.get('edit') and case['history'] and \
                rng.random() < prof['edit']:
            prev = None
            for o in reversed(case['history']):
                if o['op'] in ('join', 'filter_tables'):
                    prev = o
                    break
            op = gen_edit(g, prev) if prev is not None else None
            if op:
                import copy
                case['history'].append(op)
                # the same call again on the edited (or re-derived) table: what
                # a cache that survives on the DataFrame object gets wrong
                again = copy.deepcopy(prev)
                for k2 in ('variants', 'fault'):
                    again.pop(k2, None)
                if 'plan' in again:
                    again['plan'] = gen_plan(g)
                case['history'].append(again)
                continue
        if prof['reject'] and rng.random() < prof['reject']:
            op = genreject.gen_reject(g)
            if op:
                case['history'].append(op)
            continue
        x = rng.random() * tot
        kind = kinds[-1][0]
        for k, w in kinds:
            x -= w
            if x < 0:
                kind = k
                break
        op = None
        if kind == 'join':
            op = gen_join(g)
        elif kind == 'filter_tables':
            op = gen_filter_tables(g)
        elif kind == 'filter_candset':
            op = gen_filter_candset(g)
        elif kind == 'filter_pair':
            op = gen_filter_pair(g)
        elif kind == 'overlap_tables':
            op = gen_filter_tables(g, 'OverlapFilter')
        elif kind == 'overlap_pair':
            op = gen_filter_pair(g, 'OverlapFilter')
        elif kind == 'apply_matcher':
            op = gen_apply_matcher(g)
        elif kind == 'pipeline':
            op = gen_pipeline(g)
        elif kind == 'profile':
            op = gen_profile(g)
        elif kind == 'convert':
            op = gen_convert(g)
        if op is None:
            continue
        idx = len(case['history'])
        case['history'].append(op)
        if op['op'] in ('join', 'filter_tables') and 'fault' not in op:
            lm = dict([m for m in g.tables if m['name'] == op['l']][0])
            rm = dict([m for m in g.tables if m['name'] == op['r']][0])
            for m2, kk, ak in ((lm, 'l_key', 'l_attr'), (rm, 'r_key',
                                                          'r_attr')):
                m2['_base'] = [m for m in g.tables
                               if m['name'] == m2['name']][0]
                if op[kk] != m2['key']:
                    m2['key'] = op[kk]
                    m2['keytype'] = m2['key2type']
                if op[ak] == m2['s'] and \
                        g.case['tokenizers'].get(op.get('tok'), {}) and \
                        isinstance(g.case['tokenizers'].get(op.get('tok')),
                                   dict) and \
                        g.case['tokenizers'][op['tok']]['kind'] != 'qgram':
                    m2['v'], m2['s'] = m2['s'], m2['v']
            g.results_candsets.append((idx, lm, rm, op.get('l_prefix', 'l_'),
                                       op.get('r_prefix', 'r_')))
        if prof.get('siblings') and 'fault' not in op and \
                rng.random() < prof['siblings']:
            sib = gen_sibling(g, op)
            if sib is not None:
                if rng.random() < 0.5:
                    case['history'].append(sib)
                else:
                    # sibling first: order matters for a stale memo
                    case['history'].insert(idx, sib)
                    for o2 in case['history'][idx + 1:]:
                        for o3 in (o2, o2.get('base') or {}):
                            cs = o3.get('candset')
                            if isinstance(cs, str) and \
                                    cs.startswith('result_of:'):
                                k = int(cs.split(':')[1])
                                if k >= idx:
                                    o3['candset'] = 'result_of:%d' % (k + 1)
                    g.results_candsets = [
                        ((ci + 1) if ci >= idx else ci, a, b, c, d)
                        for (ci, a, b, c, d) in g.results_candsets]
    # fault history: after the ordinary history, one of its calls is made again
    # with a failure in the middle (tokenizer / similarity function raising, a
    # worker dying) and then once more, valid and judged in full -- what a
    # half-filled cache or a list that keeps the rows of the aborted call needs
    if prof.get('fault_hist') and rng.random() < prof['fault_hist']:
        import copy
        cands = [o for o in case['history']
                 if o['op'] in ('join', 'filter_tables', 'filter_candset',
                                'filter_pair', 'apply_matcher', 'pipeline')
                 and 'fault' not in o]
        if cands:
            base = rng.choice(cands)
            fa = copy.deepcopy(base)
            for k2 in ('variants', 'twin'):
                fa.pop(k2, None)
            if fa['op'] == 'pipeline':
                stage = rng.choice(['m', 'm', 'f', 'j'])
                kind = rng.choice(['sim_raise', 'tok_raise', 'worker_crash']
                                  if stage == 'm' else
                                  ['tok_raise', 'worker_crash'])
                if kind == 'tok_raise' and stage == 'm' and \
                        fa['measure'] == 'EDIT_DISTANCE':
                    kind = 'sim_raise'
                f = {'kind': kind, 'frac': round(rng.random(), 4),
                     'stage': stage}
                if kind == 'worker_crash':
                    f['fanout'] = 0
                    jk = {'m': 'n_jobs_m', 'f': 'n_jobs_f',
                          'j': 'n_jobs_j'}[stage]
                    if fa.get(jk) in (1, None):
                        fa[jk] = rng.choice([2, 3])
            else:
                f = gen_fault(g, fa, force=True)
            if f:
                fa['fault'] = f
                if f['kind'] == 'worker_crash' and fa.get('n_jobs') in (1,
                                                                        None):
                    fa['n_jobs'] = rng.choice([2, 3])
                again = copy.deepcopy(base)
                again.pop('variants', None)
                if rng.random() < 0.5 and 'plan' in again:
                    again['plan'] = gen_plan(g)
                if rng.random() < 0.4:
                    # ... or a near-duplicate (other tables / tokenizer /
                    # threshold): stale entries of the aborted call differ
                    # from what this call needs
                    sib = gen_sibling(g, base)
                    if sib is not None:
                        again = sib
                case['history'].append(fa)
                case['history'].append(again)
                if base['op'] == 'join' and rng.random() < 0.4:
                    # ... and a join that needs the tokenizer in the *other*
                    # mode (edit distance <-> set similarity) on the same
                    # tokenizer object
                    tn = base.get('tok')
                    spec = g.case['tokenizers'].get(tn) if isinstance(tn, str) \
                        else None
                    if isinstance(spec, dict) and spec['kind'] == 'qgram':
                        opp = copy.deepcopy(base)
                        for k2 in ('variants', 'fault', 'twin'):
                            opp.pop(k2, None)
                        if base['measure'] == 'EDIT_DISTANCE':
                            opp['measure'] = rng.choice(['JACCARD', 'COSINE',
                                                         'DICE'])
                            opp['threshold'] = gen_threshold(
                                rng, opp['measure'], prof)
                            opp['comp_op'] = '>='
                            opp['allow_empty'] = rng.random() < 0.6
                        else:
                            opp['measure'] = 'EDIT_DISTANCE'
                            opp['threshold'] = rng.choice([0, 1, 2, 3])
                            opp['comp_op'] = rng.choice(['<=', '<=', '<', '='])
                            opp.pop('allow_empty', None)
                        case['history'].append(opp)
    for _, fs in g.filters:
        fs.pop('_used', None)
    return case
