"""Reference model.  Never imports py_stringsimjoin.

Tables are lists of row dicts, tokens come from a *fresh* py_stringmatching
tokenizer built from the spec (py_stringmatching is the trusted dependency, as
the properties themselves assume), similarities are recomputed here by the
textbook formulas, Levenshtein by a plain DP.

Every (left row, right row) gets a verdict MUST / MAY / NOT for a call.  The
band between MUST and MAY (rounding straddles, last-bit differences between
formula variants) is never judged.
"""
import math

from sim import simtok

MUST, MAY, NOT = 2, 1, 0

SET_MEASURES = ('JACCARD', 'COSINE', 'DICE', 'OVERLAP_COEFFICIENT', 'OVERLAP')
ROUNDED = ('JACCARD', 'COSINE', 'DICE')


def is_missing(v):
    return v is None or (isinstance(v, float) and v != v)


class Tok(object):
    """Tokenization with a memo, per (spec, mode)."""

    def __init__(self, spec, return_set):
        s = dict(spec)
        s['return_set'] = bool(return_set)
        self.t = simtok.build(s, None, instrumented=False)
        self.memo = {}

    def __call__(self, s):
        r = self.memo.get(s)
        if r is None:
            r = self.t.tokenize(s)
            self.memo[s] = r
        return r


def lev(a, b):
    if a == b:
        return 0
    if len(a) < len(b):
        a, b = b, a
    prev = list(range(len(b) + 1))
    for i, ca in enumerate(a, 1):
        cur = [i]
        for j, cb in enumerate(b, 1):
            cur.append(min(prev[j] + 1, cur[j - 1] + 1,
                           prev[j - 1] + (ca != cb)))
        prev = cur
    return prev[-1]


def sim_variants(measure, A, B):
    """(must_variants, may_variants) of the similarity of two non-empty-pair
    token sets in double precision.  Identical sets have similarity exactly 1
    by definition (py_stringmatching returns 1.0 for them)."""
    o = len(A & B)
    a, b = len(A), len(B)
    if measure == 'OVERLAP':
        return [o], [o]
    if a == 0 or b == 0:
        return [0.0], [0.0]
    if measure == 'JACCARD':
        vs = [float(o) / float(a + b - o)]
    elif measure == 'DICE':
        vs = [2.0 * float(o) / float(a + b), float(2 * o) / float(a + b)]
    elif measure == 'COSINE':
        vs = [float(o) / (math.sqrt(float(a)) * math.sqrt(float(b))),
              float(o) / math.sqrt(float(a * b))]
    elif measure == 'OVERLAP_COEFFICIENT':
        vs = [float(o) / float(min(a, b))]
    else:
        raise ValueError(measure)
    if A == B:
        return [1.0], vs + [1.0]
    return vs, vs


def cmp(op, x, t):
    if op == '>=':
        return x >= t
    if op == '>':
        return x > t
    if op == '=':
        return x == t
    if op == '<=':
        return x <= t
    if op == '<':
        return x < t
    if op == '!=':
        return x != t
    raise ValueError(op)


def set_verdict(measure, A, B, threshold, op, strict=False):
    """Verdict and accepted scores for a pair of present values under a set
    measure (neither both-empty nor missing: the caller handles those).
    strict: identical sets are not taken to be exactly 1.0 but every formula
    variant has to agree too (a similarity function applied to the same set in
    another token order may return 0.9999999999999998)."""
    must_v, may_v = sim_variants(measure, A, B)
    if strict:
        must_v = may_v
    if measure in ROUNDED:
        must = all(cmp(op, v, threshold) and cmp(op, round(v, 4), threshold)
                   for v in must_v)
        may = any(cmp(op, v, threshold) or cmp(op, round(v, 4), threshold)
                  for v in may_v)
        scores = sorted(set(round(v, 4) for v in may_v))
    else:
        must = all(cmp(op, v, threshold) for v in must_v)
        may = any(cmp(op, v, threshold) for v in may_v)
        scores = sorted(set(may_v))
    return (MUST if must else (MAY if may else NOT)), scores


def bag_intersects(x, y):
    return bool(set(x) & set(y))


class PairOracle(object):
    """Verdicts for every (left row, right row) of one call."""

    def __init__(self):
        self.verdict = {}    # (lk, rk) -> MUST/MAY/NOT
        self.scores = {}     # (lk, rk) -> list of accepted scores | 'nan' | None (any)
        self.kind = {}       # (lk, rk) -> 'normal' | 'empty' | 'one_empty' | 'missing'
        self.sizes = {}      # (lk, rk) -> (|A|, |B|, |A & B|) for normal pairs
        self.l_empty = 0     # left rows with a present value and no tokens
        self.r_empty_pos = []   # positions (among present right rows) of such rows
        self.r_present = 0

    def set(self, k, v, scores, kind):
        self.verdict[k] = v
        self.scores[k] = scores
        self.kind[k] = kind

    def must(self):
        return [k for k, v in self.verdict.items() if v == MUST]

    def must_not(self):
        return [k for k, v in self.verdict.items() if v == NOT]


def join_oracle(lrows, rrows, lkey, rkey, lattr, rattr, tokspec, measure,
                threshold, op, allow_empty, allow_missing, strict=False):
    """Oracle for the six joins (C01, C02, C03, C08, C09)."""
    po = PairOracle()
    if measure == 'EDIT_DISTANCE':
        tok = Tok(tokspec, False)
        thr = int(math.floor(threshold))
    else:
        tok = Tok(tokspec, True)
    ltoks = [None if is_missing(r[lattr]) else tok(r[lattr]) for r in lrows]
    rtoks = [None if is_missing(r[rattr]) else tok(r[rattr]) for r in rrows]
    lsets = [None if t is None else frozenset(t) for t in ltoks]
    rsets = [None if t is None else frozenset(t) for t in rtoks]
    for i, lr in enumerate(lrows):
        for j, rr in enumerate(rrows):
            k = (lr[lkey], rr[rkey])
            if ltoks[i] is None or rtoks[j] is None:
                po.set(k, MUST if allow_missing else NOT, 'nan', 'missing')
                continue
            if measure == 'EDIT_DISTANCE':
                d = lev(lr[lattr], rr[rattr])
                ok = cmp(op, d, thr)
                if not ok:
                    po.set(k, NOT, [d], 'normal')
                elif bag_intersects(ltoks[i], rtoks[j]):
                    po.set(k, MUST, [d], 'normal')
                else:
                    po.set(k, MAY, [d], 'normal')
                continue
            A, B = lsets[i], rsets[j]
            if not A and not B:
                if measure == 'OVERLAP':
                    po.set(k, NOT, [], 'empty')
                else:
                    po.set(k, MUST if allow_empty else NOT, [1.0], 'empty')
                continue
            if not A or not B:
                po.set(k, NOT, [], 'one_empty')
                continue
            v, scores = set_verdict(measure, A, B, threshold, op, strict)
            po.set(k, v, scores, 'normal')
            po.sizes[k] = (len(A), len(B), len(A & B))
    if measure != 'EDIT_DISTANCE':
        po.l_empty = sum(1 for t in lsets if t is not None and not t)
        present = [t for t in rsets if t is not None]
        po.r_present = len(present)
        po.r_empty_pos = [i for i, t in enumerate(present) if not t]
    return po


def filter_oracle(lrows, rrows, lkey, rkey, lattr, rattr, tokspec, tok_mode,
                  fkind, measure, threshold, op, allow_empty, allow_missing,
                  partial=False):
    """Oracle for filter_tables / filter_candset / filter_pair of the safe
    filters (C04, C08, C09) and of the exact OverlapFilter (C06).

    Verdicts: MUST = must be kept, NOT = must be dropped, MAY = unjudged.
    ``tok_mode`` is the return_set flag the filter's tokenizer is in."""
    po = PairOracle()
    tok = Tok(tokspec, tok_mode)
    ltoks = [None if is_missing(r[lattr]) else tok(r[lattr]) for r in lrows]
    rtoks = [None if is_missing(r[rattr]) else tok(r[rattr]) for r in rrows]
    for i, lr in enumerate(lrows):
        for j, rr in enumerate(rrows):
            k = (lr[lkey], rr[rkey])
            v, kind = filter_pair_verdict(
                lr[lattr], rr[rattr], ltoks[i], rtoks[j], fkind, measure,
                threshold, op, allow_empty, allow_missing, partial)
            sc = None
            if fkind == 'OverlapFilter':
                if kind == 'missing':
                    sc = 'nan'
                elif kind == 'normal' and not partial:
                    sc = [len(set(ltoks[i]) & set(rtoks[j]))]
            po.set(k, v, sc, kind)
    return po


def filter_pair_verdict(ls, rs, lt, rt, fkind, measure, threshold, op,
                        allow_empty, allow_missing, partial=False):
    """partial: the filter's tokenizer is not in the mode C04 assumes (set
    mode for set measures, bag mode for edit distance).  Then only what does
    not depend on the mode is judged: missing values (C08) and pairs of two
    token-less values (C09); everything else is MAY."""
    if lt is None or rt is None:
        return (MUST if allow_missing else NOT), 'missing'
    if partial and (lt or rt):
        return MAY, ('one_empty' if (not lt or not rt) else 'normal')
    if fkind == 'OverlapFilter':
        # exact: kept iff both strings non-empty and overlap op size
        if not lt or not rt:
            return NOT, ('empty' if (not lt and not rt) else 'one_empty')
        if not ls or not rs:
            # an empty *string* that still has tokens (padded q-grams): C06
            # ("both strings non-empty") and C04 ("never dropped") pull in
            # opposite directions here; not judged
            return MAY, 'normal'
        o = len(set(lt) & set(rt))
        return (MUST if cmp(op, o, threshold) else NOT), 'normal'
    if measure == 'EDIT_DISTANCE':
        if not lt and not rt:
            return MAY, 'empty'
        d = lev(ls, rs)
        if d <= threshold and bag_intersects(lt, rt):
            return MUST, 'normal'
        return MAY, 'normal'
    A, B = frozenset(lt), frozenset(rt)
    if not A and not B:
        if measure == 'OVERLAP':
            return NOT, 'empty'
        return (MUST if allow_empty else NOT), 'empty'
    if not A or not B:
        return MAY, 'one_empty'
    v, _ = set_verdict(measure, A, B, threshold, '>=')
    return (MUST if v == MUST else MAY), 'normal'


def matcher_expected(pairs, lrows_by_key, rrows_by_key, lattr, rattr, tokspec,
                     tok_mode, measure, threshold, op, allow_missing):
    """Exact expectation for apply_matcher: list of (index in pairs, score)."""
    tok = Tok(tokspec, tok_mode) if tokspec is not None else None
    out = []
    for n, (lk, rk) in enumerate(pairs):
        lv = lrows_by_key[lk][lattr]
        rv = rrows_by_key[rk][rattr]
        if is_missing(lv) or is_missing(rv):
            if allow_missing:
                out.append((n, 'nan'))
            continue
        if tok is not None:
            lv, rv = tok(lv), tok(rv)
        s = simtok.raw_score(measure, lv, rv)
        if cmp(op, s, threshold):
            out.append((n, s))
    return out


def out_columns(lkey, rkey, l_out, r_out, lp, rp, score):
    def dedup(attrs, key):
        if attrs is None:
            return []
        seen, r = set(), []
        for a in attrs:
            if a == key or a in seen:
                continue
            seen.add(a)
            r.append(a)
        return r
    lo, ro = dedup(l_out, lkey), dedup(r_out, rkey)
    cols = ['_id', lp + lkey, rp + rkey] + [lp + a for a in lo] + \
        [rp + a for a in ro]
    if score:
        cols.append('_sim_score')
    return cols, lo, ro
