"""Instrumented tokenizers and similarity functions (the user-argument seams).

Module-level subclasses of the real py_stringmatching tokenizers: isinstance
checks of the library pass, they pickle by reference, and a pickled copy keeps
its ``sim_id`` so that calls made inside a simulated worker process are still
attributed.  Each hook logs, may raise the injected fault, may yield the baton
(thread mode), and then runs the real code.
"""
from py_stringmatching.tokenizer.alphabetic_tokenizer import AlphabeticTokenizer
from py_stringmatching.tokenizer.alphanumeric_tokenizer import \
    AlphanumericTokenizer
from py_stringmatching.tokenizer.delimiter_tokenizer import DelimiterTokenizer
from py_stringmatching.tokenizer.qgram_tokenizer import QgramTokenizer
from py_stringmatching.tokenizer.whitespace_tokenizer import WhitespaceTokenizer
from py_stringmatching.similarity_measure.cosine import Cosine
from py_stringmatching.similarity_measure.dice import Dice
from py_stringmatching.similarity_measure.jaccard import Jaccard
from py_stringmatching.similarity_measure.levenshtein import Levenshtein
from py_stringmatching.similarity_measure.overlap_coefficient import \
    OverlapCoefficient

from sim.env import ENV


class _Hooks(object):
    sim_id = '?'

    def tokenize(self, input_string):
        ENV.on_tokenize(self.sim_id)
        return super(_Hooks, self).tokenize(input_string)

    def get_return_set(self):
        ENV.on_flag(self.sim_id, 'get_flag')
        return super(_Hooks, self).get_return_set()

    def set_return_set(self, return_set):
        ENV.on_flag(self.sim_id, 'set_flag', bool(return_set))
        return super(_Hooks, self).set_return_set(return_set)


class SimWhitespace(_Hooks, WhitespaceTokenizer):
    pass


class SimDelimiter(_Hooks, DelimiterTokenizer):
    pass


class SimQgram(_Hooks, QgramTokenizer):
    pass


class SimAlphabetic(_Hooks, AlphabeticTokenizer):
    pass


class SimAlphanumeric(_Hooks, AlphanumericTokenizer):
    pass


def build(spec, sim_id, instrumented=True):
    """Build a tokenizer from its JSON spec.  ``instrumented=False`` gives the
    plain py_stringmatching object (used by the reference model)."""
    kind = spec['kind']
    rs = bool(spec.get('return_set', False))
    if kind == 'ws':
        t = (SimWhitespace if instrumented else WhitespaceTokenizer)(
            return_set=rs)
    elif kind == 'delim':
        t = (SimDelimiter if instrumented else DelimiterTokenizer)(
            delim_set=set(spec['delims']), return_set=rs)
    elif kind == 'qgram':
        t = (SimQgram if instrumented else QgramTokenizer)(
            qval=spec['qval'], padding=spec.get('padding', True),
            prefix_pad=spec.get('prefix_pad', '#'),
            suffix_pad=spec.get('suffix_pad', '$'), return_set=rs)
    elif kind == 'alpha':
        t = (SimAlphabetic if instrumented else AlphabeticTokenizer)(
            return_set=rs)
    elif kind == 'alnum':
        t = (SimAlphanumeric if instrumented else AlphanumericTokenizer)(
            return_set=rs)
    else:
        raise ValueError('unknown tokenizer kind %r' % (kind,))
    if instrumented:
        t.sim_id = sim_id
    return t


DEFAULT_SPEC = {'kind': 'qgram', 'qval': 2, 'padding': True,
                'prefix_pad': '#', 'suffix_pad': '$', 'return_set': False}


def adopt_default(tok):
    """Give the library's shared default q-gram tokenizer the instrumented
    class.  Same object, same attributes."""
    if type(tok) is QgramTokenizer:
        tok.__class__ = SimQgram
    tok.sim_id = 'DEFAULT'


def config_of(tok):
    """Full observable configuration of a tokenizer, for state invariants.
    Reads attributes directly (no events)."""
    d = {'class': type(tok).__name__}
    for k, v in sorted(vars(tok).items()):
        if k == 'sim_id':
            continue
        if isinstance(v, (set, frozenset)):
            v = sorted(v)
        elif hasattr(v, 'pattern'):
            v = v.pattern
        d[k] = v
    return d


# ---- similarity functions -------------------------------------------------

_J, _C, _D, _O, _L = Jaccard(), Cosine(), Dice(), OverlapCoefficient(), \
    Levenshtein()


def _raw(measure, a, b):
    if measure == 'JACCARD':
        return _J.get_raw_score(a, b)
    if measure == 'COSINE':
        return _C.get_raw_score(a, b)
    if measure == 'DICE':
        return _D.get_raw_score(a, b)
    if measure == 'OVERLAP_COEFFICIENT':
        return _O.get_raw_score(a, b)
    if measure == 'OVERLAP':
        return len(set(a) & set(b))
    if measure == 'EDIT_DISTANCE':
        return _L.get_raw_score(a, b)
    if measure == 'LEN_DIFF':
        return abs(len(a) - len(b))
    if measure == 'CONTAINMENT':
        # not symmetric: share of the first argument's tokens found in the
        # second
        sa = set(a)
        return (len(sa & set(b)) / float(len(sa))) if sa else 0.0
    raise ValueError(measure)


def fn_jaccard(a, b):
    ENV.on_sim('JACCARD')
    return _raw('JACCARD', a, b)


def fn_cosine(a, b):
    ENV.on_sim('COSINE')
    return _raw('COSINE', a, b)


def fn_dice(a, b):
    ENV.on_sim('DICE')
    return _raw('DICE', a, b)


def fn_overlap_coefficient(a, b):
    ENV.on_sim('OVERLAP_COEFFICIENT')
    return _raw('OVERLAP_COEFFICIENT', a, b)


def fn_overlap(a, b):
    ENV.on_sim('OVERLAP')
    return _raw('OVERLAP', a, b)


def fn_edit_distance(a, b):
    ENV.on_sim('EDIT_DISTANCE')
    return _raw('EDIT_DISTANCE', a, b)


def fn_len_diff(a, b):
    ENV.on_sim('LEN_DIFF')
    return _raw('LEN_DIFF', a, b)


def fn_containment(a, b):
    ENV.on_sim('CONTAINMENT')
    return _raw('CONTAINMENT', a, b)


PLAIN = {'JACCARD': fn_jaccard, 'COSINE': fn_cosine, 'DICE': fn_dice,
         'OVERLAP_COEFFICIENT': fn_overlap_coefficient, 'OVERLAP': fn_overlap,
         'EDIT_DISTANCE': fn_edit_distance, 'LEN_DIFF': fn_len_diff,
         'CONTAINMENT': fn_containment}


class SimMeasure(object):
    """A user object whose bound method is the sim_function (exercises the
    copyreg hook of utils/pickle.py).  Carries state that must survive the
    pickle boundary: which measure it computes."""

    def __init__(self, measure):
        self.measure = measure

    def score(self, a, b):
        ENV.on_sim(self.measure)
        return _raw(self.measure, a, b)


class SimMeasureChild(SimMeasure):
    """Inherits ``score``: the unpickle helper has to walk the MRO."""


def sim_function(measure, form):
    """form: plain | bound | bound_child | psm (uninstrumented bound method of
    the py_stringmatching measure object)."""
    if form == 'plain':
        return PLAIN[measure]
    if form == 'bound':
        return SimMeasure(measure).score
    if form == 'bound_child':
        return SimMeasureChild(measure).score
    if form == 'psm':
        obj = {'JACCARD': _J, 'COSINE': _C, 'DICE': _D,
               'OVERLAP_COEFFICIENT': _O, 'EDIT_DISTANCE': _L}.get(measure)
        if obj is None:
            return PLAIN[measure]
        return obj.get_raw_score
    raise ValueError(form)


def raw_score(measure, a, b):
    """What the sim_function returns, without any event (for the model)."""
    return _raw(measure, a, b)
