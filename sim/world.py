"""The world of one run: shared tables, tokenizers, filter objects, candidate
sets; built from the JSON case (never from a seed).  Plus normalisation of
DataFrames into plain Python values and state snapshots for the invariants.
"""
import numpy as np
import pandas as pd

from sim import simtok


def _missing(v):
    if v is None:
        return True
    try:
        return bool(pd.isnull(v))
    except (TypeError, ValueError):
        return False


def norm_cell(v):
    if isinstance(v, (list, tuple, dict, set)):
        return repr(v)
    if _missing(v):
        return None
    if isinstance(v, np.generic):
        v = v.item()
    if isinstance(v, pd.Timestamp):
        return 'ts:' + v.isoformat()
    if hasattr(v, 'isoformat'):
        return 'ts:' + v.isoformat()
    return v


def build_series(vals, dt, na_kind):
    if dt == 'object':
        na = None if na_kind == 'none' else np.nan
        return pd.Series([na if v is None else v for v in vals], dtype=object)
    if dt == 'str':
        return pd.Series(vals, dtype='str')
    if dt == 'string':
        # the nullable pandas string dtype: missing values are pd.NA
        return pd.Series(vals, dtype='string')
    if dt == 'int64':
        return pd.Series(vals, dtype='int64')
    if dt == 'float64':
        return pd.Series([np.nan if v is None else v for v in vals],
                         dtype='float64')
    if dt == 'bool':
        return pd.Series(vals, dtype='bool')
    if dt == 'datetime':
        return pd.Series(pd.to_datetime(vals))
    raise ValueError('dtype %r' % (dt,))


def build_table(spec):
    cols = spec['columns']
    rows = spec['rows']
    na_kind = spec.get('na_kind', 'nan')
    data = {}
    for ci, c in enumerate(cols):
        data[c] = build_series([r[ci] for r in rows], spec['dtypes'][c],
                               na_kind)
    df = pd.DataFrame(data, columns=cols)
    idx = spec.get('index')
    if idx is not None:
        if len(idx) == 0:
            df.index = pd.Index([], dtype=object)
        else:
            df.index = pd.Index(idx)
    return df


def model_rows(spec):
    """Rows as the model sees them: plain values, missing = None, datetimes
    in the same normal form the result cells are compared in."""
    cols = spec['columns']
    out = []
    for r in spec['rows']:
        d = {}
        for c, v in zip(cols, r):
            if v is not None and spec['dtypes'].get(c) == 'datetime':
                v = 'ts:' + pd.Timestamp(v).isoformat()
            d[c] = v
        out.append(d)
    return out


def build_candset(spec):
    pairs = spec['pairs']
    n = len(pairs)
    ids = spec.get('ids')
    if ids is None:
        ids = list(range(n))
    data = {'_id': pd.Series(ids, dtype='int64') if n else
            pd.Series([], dtype='int64')}
    lcol, rcol = spec['l_col'], spec['r_col']
    lk = [p[0] for p in pairs]
    rk = [p[1] for p in pairs]
    data[lcol] = pd.Series(lk, dtype=spec.get('l_dtype', None)) if n else \
        pd.Series([], dtype=object)
    data[rcol] = pd.Series(rk, dtype=spec.get('r_dtype', None)) if n else \
        pd.Series([], dtype=object)
    cols = ['_id', lcol, rcol]
    for c, vals in (spec.get('extra') or {}).items():
        data[c] = pd.Series(vals)
        cols.append(c)
    if spec.get('no_id'):
        cols = cols[1:]
    df = pd.DataFrame(data, columns=cols)
    idx = spec.get('index')
    if idx is not None and n:
        df.index = pd.Index(idx)
    return df


def snapshot(df):
    """Strict, value-level fingerprint of a DataFrame: columns, dtypes, index
    labels and every cell with its Python type."""
    cols = [(repr(c)) for c in df.columns]
    dtypes = [str(d) for d in df.dtypes]
    index = [(type(i).__name__, repr(i)) for i in df.index]
    cells = []
    for c in range(df.shape[1]):
        col = df.iloc[:, c]
        cells.append([(type(v).__name__, repr(v)) for v in col.tolist()])
    return {'cols': cols, 'dtypes': dtypes, 'index': index, 'cells': cells,
            'index_type': type(df.index).__name__}


def snap_diff(a, b):
    for k in ('cols', 'dtypes', 'index', 'cells'):
        if a[k] != b[k]:
            return k
    return None


class Res(object):
    """A result DataFrame as plain values."""

    def __init__(self, df):
        self.cols = [c for c in df.columns]
        self.rows = [tuple(norm_cell(v) for v in row)
                     for row in df.itertuples(index=False, name=None)]
        self.index = [norm_cell(i) for i in df.index]
        self.dtypes = [str(d) for d in df.dtypes]

    def col(self, name):
        i = self.cols.index(name)
        return [r[i] for r in self.rows]

    def multiset(self, drop=('_id',)):
        from collections import Counter
        keep = [i for i, c in enumerate(self.cols) if c not in drop]
        hdr = tuple(self.cols[i] for i in keep)
        return hdr, Counter(tuple(r[i] for i in keep) for r in self.rows)

    def canon(self, drop=('_id',)):
        hdr, ms = self.multiset(drop)
        return (hdr, sorted(((repr(k), n) for k, n in ms.items())))


FILTER_KINDS = ('SizeFilter', 'PrefixFilter', 'PositionFilter', 'SuffixFilter',
                'OverlapFilter')


def effective_tables(case, upto):
    """Table specs as they are before call number `upto`: the caller's own
    edits (history ops 'edit_table', addressed by key value so that they survive
    row permutations and copies) applied to the generated tables."""
    import copy
    tables = case['tables']
    out = None
    for op in case['history'][:upto]:
        if op.get('op') != 'edit_table':
            continue
        for name in (op['t'], op['t'] + '__copy'):
            if name not in tables:
                continue
            if out is None:
                out = dict(tables)
            if out[name] is tables[name]:
                out[name] = copy.deepcopy(tables[name])
            spec = out[name]
            ki = spec['columns'].index(op['key_col'])
            ci = spec['columns'].index(op['col'])
            for r in spec['rows']:
                if r[ki] == op['key']:
                    r[ci] = op['value']
    return out if out is not None else tables


def global_state():
    """Process-wide settings that later calls (of the library or of the
    caller) depend on and that no library call has any business changing:
    pandas options, numpy error state, recursion limit, working directory."""
    import copy
    import os
    import sys
    import numpy as np
    st = {'np_err': dict(np.geterr()),
          'recursion_limit': sys.getrecursionlimit(),
          'cwd': os.getcwd()}
    try:
        from pandas._config import config as _pc
        st['pandas_options'] = copy.deepcopy(_pc._global_config)
    except Exception:   # noqa: private layout changed - not judged then
        st['pandas_options'] = None
    return st


def global_state_diff(a, b):
    out = []
    for k in ('np_err', 'recursion_limit', 'cwd'):
        if a[k] != b[k]:
            out.append('%s %r -> %r' % (k, a[k], b[k]))
    pa, pb = a.get('pandas_options'), b.get('pandas_options')
    if pa is not None and pb is not None and pa != pb:
        def flat(d, pre=''):
            r = {}
            for k, v in d.items():
                if isinstance(v, dict):
                    r.update(flat(v, pre + k + '.'))
                else:
                    r[pre + k] = v
            return r
        fa, fb = flat(pa), flat(pb)
        for k in sorted(set(fa) | set(fb)):
            if fa.get(k) != fb.get(k):
                out.append('pandas option %s %r -> %r' %
                           (k, fa.get(k), fb.get(k)))
    return out


def restore_global_state(st):
    import os
    import sys
    import numpy as np
    np.seterr(**st['np_err'])
    sys.setrecursionlimit(st['recursion_limit'])
    try:
        os.chdir(st['cwd'])
    except Exception:   # noqa
        pass
    if st.get('pandas_options') is not None:
        import copy
        from pandas._config import config as _pc
        _pc._global_config.clear()
        _pc._global_config.update(copy.deepcopy(st['pandas_options']))


class World(object):
    def __init__(self, case, ssj):
        self.case = case
        self.gstate = global_state()
        self.ssj = ssj
        self.tables = {}
        self.snap = {}
        self.rows = {}
        for name, spec in case['tables'].items():
            self.tables[name] = build_table(spec)
            self.snap[name] = snapshot(self.tables[name])
            self.rows[name] = model_rows(spec)
        self.toks = {}
        self.tokspec = {}
        from sim.env import installed
        for name, spec in case['tokenizers'].items():
            if name == 'DEFAULT':
                self.toks[name] = installed()['default_tok']
                self.tokspec[name] = dict(simtok.DEFAULT_SPEC)
            else:
                self.toks[name] = simtok.build(spec, name)
                self.tokspec[name] = dict(spec)
        self.tok_cfg = dict((n, simtok.config_of(t))
                            for n, t in self.toks.items())
        self.filters = {}
        self.filter_cfg = {}
        for name, spec in case.get('filters', {}).items():
            self.filters[name] = make_filter(ssj, spec, self.toks)
            self.filter_cfg[name] = filter_config(self.filters[name])
        self.candsets = {}
        self.cand_snap = {}
        for name, spec in case.get('candsets', {}).items():
            self.candsets[name] = build_candset(spec)
            self.cand_snap[name] = snapshot(self.candsets[name])

    def retune(self, name, changes):
        """The *caller* reconfigures one of its tokenizer objects between two
        library calls (public py_stringmatching setters).  The model follows."""
        tok = self.toks[name]
        spec = self.tokspec[name]
        for k, v in changes.items():
            if k == 'qval':
                tok.set_qval(v)
            elif k == 'padding':
                tok.set_padding(v)
            elif k == 'return_set':
                tok.set_return_set(v)
            elif k == 'delims':
                tok.set_delim_set(set(v))
            else:
                raise ValueError('retune %r' % (k,))
            spec[k] = v
        self.tok_cfg[name] = simtok.config_of(tok)

    def edit_table(self, op):
        """The *caller* changes one cell of one of its tables between two
        library calls - in place, or by deriving a new DataFrame (copy /
        assign) that replaces the old one.  The model follows."""
        name = op['t']
        df = self.tables[name]
        pos = [i for i, r in enumerate(self.rows[name])
               if r[op['key_col']] == op['key']]
        if len(pos) != 1:
            return False
        i = pos[0]
        ci = df.columns.get_loc(op['col'])
        how = op.get('how', 'inplace')
        if how == 'inplace':
            df.iloc[i, ci] = op['value']
        elif how == 'copy':
            df = df.copy()
            df.iloc[i, ci] = op['value']
        else:
            col = df[op['col']].copy()
            col.iloc[i] = op['value']
            df = df.assign(**{op['col']: col})
        self.tables[name] = df
        self.rows[name][i][op['col']] = op['value']
        self.snap[name] = snapshot(df)
        return True

    def apply_retunes(self, history, upto):
        for op in history[:upto]:
            if op.get('op') == 'retune':
                self.retune(op['tok'], op['set'])

    def tok_mode(self, name):
        """Mode the model says the tokenizer is in (static: every normally
        returning call restores it)."""
        return bool(self.tokspec[name].get('return_set', False))


def make_filter(ssj, spec, toks):
    kind = spec['kind']
    tok = toks[spec['tokenizer']]
    cls = getattr(ssj, kind)
    if kind == 'OverlapFilter':
        return cls(tok, spec['threshold'], spec.get('comp_op', '>='),
                   spec.get('allow_missing', False))
    return cls(tok, spec['measure'], spec['threshold'],
               spec.get('allow_empty', True), spec.get('allow_missing', False))


FILTER_DOCUMENTED = ('tokenizer', 'sim_measure_type', 'threshold',
                     'allow_empty', 'allow_missing', 'overlap_size', 'comp_op')


def filter_config(f):
    """The documented attributes of a filter object (its configuration).  A
    private attribute a filter may add to itself is not part of it."""
    d = {'class': type(f).__name__}
    for k, v in sorted(vars(f).items()):
        if k not in FILTER_DOCUMENTED:
            continue
        if k == 'tokenizer':
            d[k] = ('tok', getattr(v, 'sim_id', None), id(v))
        else:
            d[k] = repr(v)
    return d
