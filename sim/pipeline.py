"""C07: a join equals filter_tables followed by apply_matcher.

One pipeline op = three library calls with three independent plans:
stage 1 filter_tables of a safe filter, stage 2 apply_matcher on its output,
and the join itself.  Compared outside the straddle zone of the model (pairs
whose verdict is MAY) and outside empty-empty pairs.
"""
from sim import model, simtok
from sim.world import make_filter


def _resolve_stage_fault(case, idx, op, results, cpus):
    """Fault inside one stage of the pipeline, given as a fraction of that
    stage's tokenize / sim_function / task count: resolved by a fault-free
    rehearsal on fresh objects and written back into the op."""
    import copy
    from collections import Counter
    from sim.env import ENV
    from sim.execu import fresh_world
    fault = op.get('fault')
    if not fault or fault.get('at') is not None or \
            fault.get('after') is not None:
        return fault
    w2 = fresh_world(case, idx)
    op2 = copy.deepcopy(op)
    op2.pop('fault', None)
    probe = {}
    rep2 = {'lib_calls': 0, 'stats': Counter(), 'tags': set(), 'sigs': set(),
            'faults': Counter()}
    saved = (ENV.events, ENV.seq)
    ENV.events, ENV.seq = [], 0
    try:
        res2 = dict((j, r.copy(deep=True)) for j, r in results.items())
        run_pipeline(case, w2, idx, op2, res2, rep2, cpus, probe=probe)
    finally:
        ENV.events, ENV.seq = saved
    o = probe.get(fault.get('stage', 'm'))
    if o is None:
        return None
    f = dict(fault)
    frac = fault.get('frac', 0.5)
    if fault['kind'] == 'tok_raise':
        if not o.tok_events:
            return None
        f['at'] = 1 + min(o.tok_events - 1, int(frac * o.tok_events))
    elif fault['kind'] == 'sim_raise':
        if not o.sim_events:
            return None
        f['at'] = 1 + min(o.sim_events - 1, int(frac * o.sim_events))
    else:
        if not o.fanouts:
            return None
        fo = o.fanouts[0]
        f['fanout'] = fo['fanout']
        f['after'] = min(fo['tasks'] - 1, int(frac * fo['tasks']))
    op['fault'] = f
    return f


def run_pipeline(case, world, idx, op, results, rep, cpus, probe=None):
    from sim.execu import V, check_state, oracle_for, run_call, \
        effective_jobs
    fault = _resolve_stage_fault(case, idx, op, results, cpus) \
        if probe is None else None
    fstage = fault.get('stage', 'm') if fault else None

    def sf(stage):
        return fault if fstage == stage else None

    def failed_by_fault(o):
        if o.fault_fired is not None:
            fk = o.fault_fired['kind']
            rep['faults'][fk + ':fired'] += 1
            rep['faults'][fk + ':configured'] += 1
        if not o.ok and o.fault_fired is not None and \
                o.exc_class in ('InjectedFault', 'SimWorkerCrash'):
            rep['stats']['calls_failed_by_fault'] += 1
            return True
        return False
    ssj = world.ssj
    measure = op['measure']
    fspec = op['filter_spec']
    comp = 'pipeline:%s:%s' % (fspec['kind'], measure)
    vs = []
    # a private filter object registered in the world for the run of stage 1
    fname = '__pipe%d' % idx
    world.case.setdefault('filters', {})
    world.case['filters'][fname] = fspec
    from sim.world import filter_config
    world.filters[fname] = make_filter(ssj, fspec, world.toks)
    world.filter_cfg[fname] = filter_config(world.filters[fname])
    lp, rp = op.get('l_prefix', 'l_'), op.get('r_prefix', 'r_')
    try:
        op_f = {'op': 'filter_tables', 'filter': fname, 'l': op['l'],
                'r': op['r'], 'l_key': op['l_key'], 'r_key': op['r_key'],
                'l_attr': op['l_attr'], 'r_attr': op['r_attr'],
                'l_prefix': lp, 'r_prefix': rp,
                'n_jobs': op.get('n_jobs_f', 1), 'show_progress': False}
        o1 = run_call(world, op_f, idx, op.get('plan_f'), sf('f'), results,
                      cpus)
        rep['lib_calls'] += 1
        if probe is not None:
            probe['f'] = o1
        if failed_by_fault(o1):
            svs, _ = check_state(world, False, op, excused_flag=True)
            return svs
        if not o1.ok:
            return [V('valid_completes', ['C15', 'C07'],
                      'C15 %s stage1-raises:%s' % (comp, o1.exc_class),
                      'filter_tables raised %s' % o1.brief(), tb=o1.tb)]
        if measure == 'EDIT_DISTANCE':
            simf = {'measure': 'EDIT_DISTANCE', 'form': op.get('form', 'psm')}
            tok_m = None
        else:
            simf = {'measure': measure, 'form': op.get('form', 'psm')}
            tok_m = op['tok']
        key = 'pipe:%d' % idx
        results2 = dict(results)
        results2[-1] = o1.value
        op_m = {'op': 'apply_matcher', 'candset': 'result_of:-1',
                'c_l': lp + op['l_key'], 'c_r': rp + op['r_key'],
                'l': op['l'], 'r': op['r'], 'l_key': op['l_key'],
                'r_key': op['r_key'], 'l_attr': op['l_attr'],
                'r_attr': op['r_attr'], 'tok': tok_m, 'sim': simf,
                'threshold': op['threshold'], 'comp_op': op['comp_op'],
                'allow_missing': op.get('allow_missing', False),
                'l_prefix': lp, 'r_prefix': rp, 'score': True,
                'n_jobs': op.get('n_jobs_m', 1), 'show_progress': False}
        o2 = run_call(world, op_m, idx, op.get('plan_m'), sf('m'), results2,
                      cpus)
        rep['lib_calls'] += 1
        if probe is not None:
            probe['m'] = o2
        if failed_by_fault(o2):
            svs, _ = check_state(world, False, op, excused_flag=True)
            return svs
        if not o2.ok:
            return [V('valid_completes', ['C15', 'C07'],
                      'C15 %s stage2-raises:%s' % (comp, o2.exc_class),
                      'apply_matcher raised %s' % o2.brief(), tb=o2.tb)]
        op_j = {'op': 'join', 'measure': measure, 'l': op['l'], 'r': op['r'],
                'l_key': op['l_key'], 'r_key': op['r_key'],
                'l_attr': op['l_attr'], 'r_attr': op['r_attr'],
                'tok': op['tok'], 'threshold': op['threshold'],
                'comp_op': op['comp_op'],
                'allow_empty': op.get('allow_empty', True),
                'allow_missing': op.get('allow_missing', False),
                'l_prefix': lp, 'r_prefix': rp, 'score': True,
                'n_jobs': op.get('n_jobs_j', 1), 'show_progress': False}
        o3 = run_call(world, op_j, idx, op.get('plan_j'), sf('j'), results,
                      cpus)
        rep['lib_calls'] += 1
        if probe is not None:
            probe['j'] = o3
        if failed_by_fault(o3):
            svs, _ = check_state(world, False, op, excused_flag=True)
            return svs
        if not o3.ok:
            return [V('valid_completes', ['C15', 'C07'],
                      'C15 %s join-raises:%s' % (comp, o3.exc_class),
                      'join raised %s' % o3.brief(), tb=o3.tb)]
        svs, _ = check_state(world, True, op)
        vs.extend(svs)
        po = oracle_for(world, op_j, strict=True)
        if o2.res is None or o3.res is None or len(o3.res.cols) < 3:
            return vs
        if len(o1.res.rows) == 0:
            # empty candidate set is returned as is by apply_matcher
            pipe = {}
        else:
            si = o2.res.cols.index('_sim_score')
            pipe = dict(((r[1], r[2]), r[si]) for r in o2.res.rows)
        sj = o3.res.cols.index('_sim_score')
        join = dict(((r[1], r[2]), r[sj]) for r in o3.res.rows)
        judged = 0
        if measure == 'EDIT_DISTANCE':
            for k in join:
                if k not in pipe and po.kind.get(k) == 'normal':
                    vs.append(V('pipeline', ['C07'],
                                'C07 %s join-pair-not-in-pipeline' % comp,
                                'pair %r is returned by the join but not by '
                                'filter+matcher' % (k,), pair=list(k)))
            for k, v in po.verdict.items():
                if po.kind[k] != 'normal':
                    continue
                judged += 1
                if v == model.MUST and k in pipe and k not in join:
                    vs.append(V('pipeline', ['C07'],
                                'C07 %s pipeline-pair-not-in-join' % comp,
                                'pair %r shares a q-gram, is in the pipeline '
                                'result but not in the join' % (k,),
                                pair=list(k)))
                if k in pipe and k in join and pipe[k] != join[k]:
                    vs.append(V('pipeline', ['C07'], 'C07 %s score' % comp,
                                'pair %r: join score %r, pipeline score %r' %
                                (k, join[k], pipe[k])))
        else:
            for k, v in po.verdict.items():
                if v == model.MAY or po.kind[k] == 'empty':
                    continue
                judged += 1
                if (k in pipe) != (k in join):
                    vs.append(V('pipeline', ['C07'],
                                'C07 %s pair-in-%s-only' %
                                (comp, 'join' if k in join else 'pipeline'),
                                'pair %r (%s): in join: %r, in filter+matcher: '
                                '%r' % (k, po.kind[k], k in join, k in pipe),
                                pair=list(k)))
                elif k in pipe and po.kind[k] == 'normal':
                    a, b = join[k], pipe[k]
                    if a is None or b is None:
                        continue
                    if measure in model.ROUNDED:
                        b = round(b, 4)
                    if a != b:
                        vs.append(V('pipeline', ['C07'], 'C07 %s score' % comp,
                                    'pair %r: join score %r, pipeline score %r'
                                    % (k, a, b)))
        rep['stats']['pipeline_pairs_judged'] += judged
        nj = len([k for k in join if po.kind.get(k) == 'normal'])
        dropped = len(po.verdict) - len(o1.res.rows)
        if nj and dropped > 0:
            rep['tags'].add('C07')
        for o in (o1, o2, o3):
            for fo in o.fanouts:
                rep['sigs'].add((comp, fo['tasks'], fo['mode'],
                                 tuple(fo['dispatch']), tuple(fo['complete'])))
        return vs
    finally:
        world.filters.pop(fname, None)
        world.filter_cfg.pop(fname, None)
        world.case['filters'].pop(fname, None)
